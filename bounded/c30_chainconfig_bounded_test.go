package vconfig

// BOUNDED stand-in (never counted as proved) for the parts of C30 no contract here reaches: that the sort really
// orders the list (library specification plus the verified comparator), and the slot counts, which are computed
// in float64. The real GenesisChainConfig is run on every ordering (all permutations up to 6 peers, 200 pseudo-random
// shuffles above) of a family of stake sets with equal, unequal and zero stakes.

import (
	"encoding/json"
	"fmt"
	"math/rand"
	"os"
	"reflect"
	"sort"
	"testing"

	"github.com/ontio/ontology/common"
	"github.com/ontio/ontology/common/config"
)

func verifPermutations(n int, f func([]int)) {
	p := make([]int, n)
	for i := range p {
		p[i] = i
	}
	var rec func(k int)
	rec = func(k int) {
		if k == n {
			f(p)
			return
		}
		for i := k; i < n; i++ {
			p[k], p[i] = p[i], p[k]
			rec(k + 1)
			p[k], p[i] = p[i], p[k]
		}
	}
	rec(0)
}

func TestVerifBoundedChainConfig(t *testing.T) {
	report := func(v map[string]interface{}) {
		b, _ := json.Marshal(v)
		fmt.Printf("GOVC-BOUNDED %s\n", b)
	}
	fail := func(what string, args ...interface{}) {
		msg := fmt.Sprintf(what, args...)
		report(map[string]interface{}{"ok": false, "failing_input": msg})
		t.Fatal(msg)
	}
	thorough := os.Getenv("GOVC_TIER") == "thorough"
	stakeFamilies := [][]uint64{
		{5, 5, 5, 5, 5, 5, 5, 5, 5},
		{9, 8, 7, 6, 5, 4, 3, 2, 1},
		{7, 7, 3, 3, 3, 0, 0, 1, 9},
		{0, 0, 0, 0, 0, 0, 0, 0, 0},
		{1000000, 1, 1, 1, 999999, 1000000, 2, 2, 0},
		{1 << 40, 1 << 40, 3, 1 << 39, 3, 3, 1 << 20, 0, 1},
	}
	type kl struct{ n, k, l int }
	shapes := []kl{{4, 4, 8}, {5, 4, 16}, {6, 4, 112}, {6, 5, 10}, {7, 7, 112}, {9, 7, 112}}
	if thorough {
		shapes = append(shapes, kl{7, 4, 64}, kl{8, 7, 56}, kl{9, 4, 128}, kl{9, 9, 18})
	}
	rng := rand.New(rand.NewSource(1))
	orderings, configs := 0, 0
	var txhash common.Uint256
	txhash[3] = 7
	for _, sh := range shapes {
		for fi, fam := range stakeFamilies {
			base := make([]*config.VBFTPeerStakeInfo, sh.n)
			for i := range base {
				base[i] = &config.VBFTPeerStakeInfo{Index: uint32(i + 1), PeerPubkey: fmt.Sprintf("key-%02d-%d", (i*5+3)%11, fi), InitPos: fam[i]}
			}
			conf := &config.VBFTConfig{N: uint32(sh.n), C: 1, K: uint32(sh.k), L: uint32(sh.l), BlockMsgDelay: 1, HashMsgDelay: 1, PeerHandshakeTimeout: 1, MaxBlockChangeView: 1}
			run := func(order []int) *ChainConfig {
				in := make([]*config.VBFTPeerStakeInfo, len(order))
				for i, o := range order {
					c := *base[o]
					in[i] = &c
				}
				cfg, err := GenesisChainConfig(conf, in, txhash, 11)
				if err != nil {
					fail("n=%d k=%d l=%d family %d order %v: %v", sh.n, sh.k, sh.l, fi, order, err)
				}
				orderings++
				return cfg
			}
			ident := make([]int, sh.n)
			for i := range ident {
				ident[i] = i
			}
			ref := run(ident)
			configs++
			// exactly the K highest-staked peers (ties by key, descending), each with at least one slot,
			// slot counts non-increasing in stake
			want := append([]*config.VBFTPeerStakeInfo(nil), base...)
			sort.Slice(want, func(i, j int) bool {
				if want[i].InitPos != want[j].InitPos {
					return want[i].InitPos > want[j].InitPos
				}
				return want[i].PeerPubkey > want[j].PeerPubkey
			})
			if len(ref.Peers) != sh.k {
				fail("n=%d k=%d family %d: %d peers listed", sh.n, sh.k, fi, len(ref.Peers))
			}
			slots := map[uint32]int{}
			for _, e := range ref.PosTable {
				slots[e]++
			}
			for i := 0; i < sh.k; i++ {
				if ref.Peers[i].Index != want[i].Index || ref.Peers[i].ID != want[i].PeerPubkey {
					fail("n=%d k=%d family %d: position %d lists peer %d, the %d-th highest stake is peer %d", sh.n, sh.k, fi, i, ref.Peers[i].Index, i, want[i].Index)
				}
				if slots[want[i].Index] < 1 {
					fail("n=%d k=%d l=%d family %d: listed peer %d has no slot", sh.n, sh.k, sh.l, fi, want[i].Index)
				}
				if i > 0 && slots[want[i].Index] > slots[want[i-1].Index] {
					fail("n=%d k=%d l=%d family %d: peer %d (stake %d) has more slots than peer %d (stake %d)", sh.n, sh.k, sh.l, fi, want[i].Index, want[i].InitPos, want[i-1].Index, want[i-1].InitPos)
				}
			}
			if len(slots) != sh.k {
				fail("n=%d k=%d family %d: position table names %d peers", sh.n, sh.k, fi, len(slots))
			}
			check := func(order []int) {
				got := run(order)
				if !reflect.DeepEqual(got, ref) {
					fail("n=%d k=%d l=%d family %d: input order %v gives a different configuration than input order %v", sh.n, sh.k, sh.l, fi, order, ident)
				}
			}
			if sh.n <= 6 {
				verifPermutations(sh.n, func(p []int) { check(append([]int(nil), p...)) })
			} else {
				for r := 0; r < 200; r++ {
					check(rng.Perm(sh.n))
				}
			}
		}
	}
	report(map[string]interface{}{"ok": true, "stake_sets": configs, "orderings_run": orderings})
}
