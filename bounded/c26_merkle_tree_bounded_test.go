package merkle

// BOUNDED stand-in (never counted as proved) for the GENERATION side of C26: the compact tree, its proof builders
// and the file store relate three recursive computations over tree shapes (incremental append, full-tree hash,
// audit-path recomputation); that needs structural induction the verifier does not reach. This run executes the
// real code for every tree size up to the bound, with a file-backed hash store in a scratch directory.

import (
	"encoding/json"
	"fmt"
	"os"
	"path/filepath"
	"testing"

	"github.com/ontio/ontology/common"
)

func TestVerifBoundedMerkleTree(t *testing.T) {
	maxN := uint32(40)
	if os.Getenv("GOVC_TIER") == "thorough" {
		maxN = 130
	}
	report := func(v map[string]interface{}) {
		b, _ := json.Marshal(v)
		fmt.Printf("GOVC-BOUNDED %s\n", b)
	}
	fail := func(what string, args ...interface{}) {
		msg := fmt.Sprintf(what, args...)
		report(map[string]interface{}{"ok": false, "failing_input": msg})
		t.Fatal(msg)
	}
	dir, err := os.MkdirTemp("", "verif-c26")
	if err != nil {
		t.Fatal(err)
	}
	defer os.RemoveAll(dir)
	dbName := filepath.Join(dir, "tree.db")
	store, err := NewFileHashStore(dbName, 0)
	if err != nil {
		t.Fatal(err)
	}
	tree := NewTree(0, nil, store)
	verify := NewMerkleVerifier()
	leaf := func(i uint32) []byte { return []byte(fmt.Sprintf("leaf-%d", i)) }
	var leaves [][]byte
	roots := []common.Uint256{tree.Root()} // roots[n] = root of the first n leaves
	var snapshots [][]byte
	for n := uint32(1); n <= maxN; n++ {
		leaves = append(leaves, leaf(n-1))
		tree.Append(leaf(n - 1))
		full := TreeHasher{}.HashFullTree(leaves)
		if tree.Root() != full {
			fail("size %d: incremental root differs from the full-tree root", n)
		}
		roots = append(roots, tree.Root())
		buf, _ := tree.Marshal()
		snapshots = append(snapshots, buf)
	}
	inclusion, consistency, mutations := 0, 0, 0
	flip := func(h common.Uint256) common.Uint256 { h[5] ^= 0x04; return h }
	check := func(tr *CompactMerkleTree, what string) {
		for n := uint32(1); n <= maxN; n++ {
			for m := uint32(0); m < n; m++ {
				proof, err := tr.InclusionProof(m, n)
				if err != nil {
					fail("%s: no inclusion proof for leaf %d in size %d: %v", what, m, n, err)
				}
				lh := tr.hasher.hash_leaf(leaf(m))
				if err := verify.VerifyLeafHashInclusion(lh, m, proof, roots[n], n); err != nil {
					fail("%s: inclusion proof of leaf %d in size %d rejected: %v", what, m, n, err)
				}
				inclusion++
				// single-element alterations must be rejected
				if verify.VerifyLeafHashInclusion(flip(lh), m, proof, roots[n], n) == nil {
					fail("%s: altered leaf accepted (leaf %d, size %d)", what, m, n)
				}
				if verify.VerifyLeafHashInclusion(lh, m, proof, flip(roots[n]), n) == nil {
					fail("%s: altered root accepted (leaf %d, size %d)", what, m, n)
				}
				if n > 1 {
					other := (m + 1) % n
					if verify.VerifyLeafHashInclusion(lh, other, proof, roots[n], n) == nil {
						fail("%s: altered index accepted (leaf %d as %d, size %d)", what, m, other, n)
					}
				}
				for k := range proof {
					mp := append([]common.Uint256(nil), proof...)
					mp[k] = flip(mp[k])
					if verify.VerifyLeafHashInclusion(lh, m, mp, roots[n], n) == nil {
						fail("%s: altered proof element %d accepted (leaf %d, size %d)", what, k, m, n)
					}
					mutations++
				}
				if len(proof) > 0 && verify.VerifyLeafHashInclusion(lh, m, proof[:len(proof)-1], roots[n], n) == nil {
					fail("%s: truncated proof accepted (leaf %d, size %d)", what, m, n)
				}
				mutations += 4
			}
			for m := uint32(1); m <= n; m++ {
				proof := tr.ConsistencyProof(m, n)
				if err := verify.VerifyConsistency(m, n, roots[m], roots[n], proof); err != nil {
					fail("%s: consistency proof %d -> %d rejected: %v", what, m, n, err)
				}
				consistency++
				if m < n {
					if verify.VerifyConsistency(m, n, flip(roots[m]), roots[n], proof) == nil {
						fail("%s: altered old root accepted (%d -> %d)", what, m, n)
					}
					if verify.VerifyConsistency(m, n, roots[m], flip(roots[n]), proof) == nil {
						fail("%s: altered new root accepted (%d -> %d)", what, m, n)
					}
					for k := range proof {
						mp := append([]common.Uint256(nil), proof...)
						mp[k] = flip(mp[k])
						if verify.VerifyConsistency(m, n, roots[m], roots[n], mp) == nil {
							fail("%s: altered consistency proof element %d accepted (%d -> %d)", what, k, m, n)
						}
						mutations++
					}
					mutations += 2
				}
			}
		}
	}
	store.Flush()
	check(tree, "live tree")
	// reload: compact state from Marshal at the final size, hashes from the file store
	store.Close()
	store2, err := NewFileHashStore(dbName, maxN)
	if err != nil {
		fail("reopening the hash store at size %d: %v", maxN, err)
	}
	reloaded := NewTree(0, nil, store2)
	if err := reloaded.UnMarshal(snapshots[maxN-1]); err != nil {
		fail("UnMarshal of the persisted compact tree: %v", err)
	}
	if reloaded.Root() != roots[maxN] || reloaded.TreeSize() != maxN {
		fail("reloaded tree has a different root or size")
	}
	check(reloaded, "reloaded tree")
	// every persisted snapshot restores the root of its size
	for n := uint32(1); n <= maxN; n++ {
		tr := NewTree(0, nil, NewMemHashStore())
		if err := tr.UnMarshal(snapshots[n-1]); err != nil || tr.Root() != roots[n] {
			fail("snapshot of size %d does not restore its root", n)
		}
	}
	store2.Close()
	report(map[string]interface{}{"ok": true, "tree_sizes": fmt.Sprintf("1..%d", maxN), "inclusion_proofs": inclusion, "consistency_proofs": consistency, "mutations_rejected": mutations})
}
