package merkle

// BOUNDED stand-in (never counted as proved) for the GENERATION side of C27: MerkleLeafPath computes tree depth
// with float64 logarithms and walks the levels of MerkleHashes; relating its output to what MerkleProve folds
// needs an induction over tree levels the verifier does not reach. This run executes the real functions for every
// list size in the stated range: every member's generated path proves exactly that member against the root of
// the list (HashFullTreeWithLeafHash, the root the ledger stores), and single-byte mutations of a generated path,
// a wrong root, and values outside the list are never accepted as proving a value outside the list.

import (
	"encoding/json"
	"fmt"
	"os"
	"testing"

	"github.com/ontio/ontology/common"
)

func TestVerifBoundedMerklePath(t *testing.T) {
	maxN := 48
	if os.Getenv("GOVC_TIER") == "thorough" {
		maxN = 260
	}
	report := func(v map[string]interface{}) {
		b, _ := json.Marshal(v)
		fmt.Printf("GOVC-BOUNDED %s\n", b)
	}
	fail := func(what string, args ...interface{}) {
		msg := fmt.Sprintf(what, args...)
		report(map[string]interface{}{"ok": false, "failing_input": msg})
		t.Fatal(msg)
	}
	paths, mutations := 0, 0
	for n := 1; n <= maxN; n++ {
		values := make([][]byte, n)
		hashes := make([]common.Uint256, n)
		member := map[common.Uint256]bool{}
		for i := range values {
			values[i] = []byte(fmt.Sprintf("value-%d-of-%d", i, n))
			hashes[i] = HashLeaf(values[i])
			member[hashes[i]] = true
		}
		root := TreeHasher{}.HashFullTreeWithLeafHash(append([]common.Uint256(nil), hashes...))
		for i := range values {
			path, err := MerkleLeafPath(values[i], append([]common.Uint256(nil), hashes...))
			if err != nil {
				fail("n=%d: no path for member %d: %v", n, i, err)
			}
			got, err := MerkleProve(path, root)
			if err != nil || string(got) != string(values[i]) {
				fail("n=%d: generated path of member %d does not prove it against the list root (err=%v)", n, i, err)
			}
			paths++
			// wrong root
			bad := root
			bad[7] ^= 0x10
			if _, err := MerkleProve(path, bad); err == nil {
				fail("n=%d: path of member %d accepted against a different root", n, i)
			}
			// single-byte mutations: whatever is accepted must still be a member of the list
			step := 1
			if len(path) > 40 && n > 16 {
				step = 7
			}
			for p := 0; p < len(path); p += step {
				for _, x := range []byte{0x01, 0x80} {
					mp := append([]byte(nil), path...)
					mp[p] ^= x
					mutations++
					v, err := MerkleProve(mp, root)
					if err == nil && !member[HashLeaf(v)] {
						fail("n=%d: mutated path (member %d, byte %d ^ %#x) proves %q which is not in the list", n, i, p, x, v)
					}
					if err == nil && n > 1 && string(v) != string(values[i]) {
						fail("n=%d: mutated path (member %d, byte %d ^ %#x) proves another value %q", n, i, p, x, v)
					}
				}
			}
		}
		// a value outside the list gets no path
		if _, err := MerkleLeafPath([]byte("not-in-the-list"), append([]common.Uint256(nil), hashes...)); err == nil {
			fail("n=%d: a path was generated for a value outside the list", n)
		}
	}
	report(map[string]interface{}{"ok": true, "list_sizes": fmt.Sprintf("1..%d", maxN), "paths_checked": paths, "mutations_checked": mutations})
}
