package common

// BOUNDED stand-in (never counted as proved): the real ComputeMerkleRoot is run against a reference written from
// the property text -- pair adjacent hashes with double SHA-256, duplicate the last hash of an odd level,
// repeat until one hash is left -- for every list length in the stated range, on distinct pseudo-random
// leaves. The deductive part of C20 treats ComputeMerkleRoot as a trusted contract (the engine cannot
// slice elements of a []Uint256); this run is what stands behind that contract up to the bound.

import (
	"crypto/sha256"
	"encoding/binary"
	"encoding/json"
	"fmt"
	"os"
	"testing"
)

func verifRefRoot(level []Uint256) Uint256 {
	if len(level) == 0 {
		return Uint256{}
	}
	for len(level) > 1 {
		if len(level)%2 == 1 {
			level = append(level, level[len(level)-1])
		}
		next := make([]Uint256, len(level)/2)
		for i := range next {
			var buf [64]byte
			copy(buf[:32], level[2*i][:])
			copy(buf[32:], level[2*i+1][:])
			a := sha256.Sum256(buf[:])
			next[i] = Uint256(sha256.Sum256(a[:]))
		}
		level = next
	}
	return level[0]
}

func TestVerifBoundedMerkleRoot(t *testing.T) {
	var lens []int
	if os.Getenv("GOVC_TIER") == "thorough" {
		for n := 0; n <= 4200; n++ {
			lens = append(lens, n)
		}
	} else {
		for n := 0; n <= 300; n++ {
			lens = append(lens, n)
		}
		for _, c := range []int{512, 1024, 2048, 4096} {
			for n := c - 12; n <= c+12; n++ {
				lens = append(lens, n)
			}
		}
	}
	report := func(v map[string]interface{}) {
		b, _ := json.Marshal(v)
		fmt.Printf("GOVC-BOUNDED %s\n", b)
	}
	for _, n := range lens {
		leaves := make([]Uint256, n)
		for i := range leaves {
			var b [8]byte
			binary.LittleEndian.PutUint64(b[:], uint64(n)<<32|uint64(i))
			leaves[i] = Uint256(sha256.Sum256(b[:]))
		}
		want := verifRefRoot(append([]Uint256(nil), leaves...))
		got := ComputeMerkleRoot(append([]Uint256(nil), leaves...))
		if got != want {
			report(map[string]interface{}{"ok": false, "failing_input": fmt.Sprintf("%d leaves, leaf i = sha256(le64(%d<<32|i))", n, n), "got": got.ToHexString(), "want": want.ToHexString()})
			t.Fatalf("ComputeMerkleRoot differs from the pairing definition for %d leaves", n)
		}
		// every leaf position is bound by the root: changing one leaf changes the root
		if n > 0 {
			for _, p := range []int{0, n / 2, n - 1} {
				mod := append([]Uint256(nil), leaves...)
				mod[p][0] ^= 1
				if ComputeMerkleRoot(mod) == got {
					report(map[string]interface{}{"ok": false, "failing_input": fmt.Sprintf("%d leaves, leaf %d modified: same root", n, p)})
					t.Fatalf("root of %d leaves does not depend on leaf %d", n, p)
				}
			}
		}
	}
	report(map[string]interface{}{"ok": true, "lengths_checked": len(lens), "max_length": lens[len(lens)-1]})
}
