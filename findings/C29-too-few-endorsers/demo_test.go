package vbft

import (
	"fmt"
	"testing"

	vconfig "github.com/ontio/ontology/consensus/vbft/config"
)

// C29 known finding: the code's own configuration checks (governance / genesis: K >= 2C+1, C >= 1) admit
// N = 7, C = 3. calcParticipantPeers then returns 6 endorsers and 6 committers, fewer than 2C+1 = 7.
func TestC29TooFewEndorsers(t *testing.T) {
	n, c := 7, 3
	chain := &vconfig.ChainConfig{N: uint32(n), C: uint32(c)}
	for i := 0; i < n; i++ {
		chain.Peers = append(chain.Peers, &vconfig.PeerConfig{Index: uint32(i + 1), ID: fmt.Sprint(i)})
	}
	for i := 0; i < 4*n; i++ {
		chain.PosTable = append(chain.PosTable, uint32(i%n+1))
	}
	cfg := &BlockParticipantConfig{ChainConfig: chain}
	for i := range cfg.Vrf {
		cfg.Vrf[i] = byte(i*37 + 11)
	}
	_, e, cm := calcParticipantPeers(cfg, chain)
	if len(e) >= 2*c+1 && len(cm) >= 2*c+1 {
		t.Fatalf("finding no longer reproduces: %d endorsers, %d committers", len(e), len(cm))
	}
	t.Logf("N=%d C=%d: %d endorsers %v, %d committers %v, 2C+1 = %d", n, c, len(e), e, len(cm), cm, 2*c+1)
}
