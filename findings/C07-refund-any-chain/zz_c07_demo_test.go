package evm

// Demonstration of the recorded finding C07 (#conserved): on a chain id that is NOT main net, an EIP-155
// transaction executed at block height 13920628 whose sender cannot pay gasLimit*gasPrice ("adjusted gas")
// is credited the constant RefundValue out of nothing: the total of all ONG balances grows.
// Run with: go test -overlay (see /verif/findings/README) or copy into smartcontract/service/evm/.

import (
	"math/big"
	"testing"

	ecommon "github.com/ethereum/go-ethereum/common"
	"github.com/ontio/ontology/core/store/leveldbstore"
	"github.com/ontio/ontology/core/store/overlaydb"
	"github.com/ontio/ontology/smartcontract/service/native/ong"
	"github.com/ontio/ontology/smartcontract/storage"
	"github.com/ontio/ontology/vm/evm"
	"github.com/ontio/ontology/vm/evm/params"
)

type c07msg struct {
	from ecommon.Address
	to   ecommon.Address
}

func (m c07msg) From() ecommon.Address { return m.from }
func (m c07msg) To() *ecommon.Address  { return &m.to }
func (m c07msg) GasPrice() *big.Int    { return big.NewInt(2500) }
func (m c07msg) Gas() uint64           { return 100000 }
func (m c07msg) Value() *big.Int       { return big.NewInt(0) }
func (m c07msg) Nonce() uint64         { return 0 }
func (m c07msg) CheckNonce() bool      { return true }
func (m c07msg) Data() []byte          { return nil }

func c07total(db *storage.StateDB, as ...ecommon.Address) *big.Int {
	s := big.NewInt(0)
	for _, a := range as {
		s.Add(s, db.GetBalance(a))
	}
	return s
}

func c07run(t *testing.T, height int64) (before, after *big.Int) {
	db := storage.NewCacheDB(overlaydb.NewOverlayDB(leveldbstore.NewMemLevelDBStore()))
	statedb := storage.NewStateDB(db, ecommon.Hash{}, ecommon.Hash{}, ong.OngBalanceHandle{})
	from := ecommon.HexToAddress("0x01")
	to := ecommon.HexToAddress("0x02")
	fee := ecommon.HexToAddress("0x03")
	statedb.AddBalance(from, big.NewInt(60000*2500)) // less than gasLimit*gasPrice: gas gets adjusted
	cfg := *params.TestChainConfig
	cfg.ChainID = big.NewInt(5851) // polaris test net, not main net (58)
	blockCtx := evm.BlockContext{
		CanTransfer: func(evm.StateDB, ecommon.Address, *big.Int) bool { return true },
		Transfer:    func(evm.StateDB, ecommon.Address, ecommon.Address, *big.Int) {},
		GetHash:     func(uint64) ecommon.Hash { return ecommon.Hash{} },
		BlockNumber: big.NewInt(height),
		Time:        big.NewInt(0),
		Difficulty:  big.NewInt(0),
		GasLimit:    10000000,
	}
	vm := evm.NewEVM(blockCtx, evm.TxContext{Origin: from, GasPrice: big.NewInt(2500)}, statedb, &cfg, evm.Config{})
	before = c07total(statedb, from, to, fee)
	if _, err := ApplyMessage(vm, c07msg{from: from, to: to}, fee); err != nil {
		t.Fatal(err)
	}
	after = c07total(statedb, from, to, fee)
	return
}

func TestC07RefundMintsOnNonMainnet(t *testing.T) {
	b, a := c07run(t, RefundHeight-1)
	if b.Cmp(a) != 0 {
		t.Fatalf("control (height %d): total changed %s -> %s", RefundHeight-1, b, a)
	}
	b, a = c07run(t, RefundHeight)
	if b.Cmp(a) == 0 {
		t.Skip("total unchanged at the refund height: the finding does not reproduce (repaired?)")
	}
	diff := new(big.Int).Sub(a, b)
	t.Logf("FINDING reproduced: chain id 5851, height %d: total ONG grew by %s (RefundValue = %s)", RefundHeight, diff, RefundValue)
	if diff.Cmp(RefundValue) != 0 {
		t.Fatalf("unexpected difference %s", diff)
	}
}
