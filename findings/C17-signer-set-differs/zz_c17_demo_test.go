package types

// Demonstration of the recorded findings of C17: the signer accounts a node derives from a transaction depend on
// whether the validator ran on that node (SignedAddr set from the PARSED keys) or the fallback in
// GetSignatureAddresses is used (hash of the RAW verification script):
//  (1) for an Ethereum-type key the key's account is the Ethereum address, not the hash of its verification script;
//  (2) GetProgramInfo accepts non-canonical scripts (PUSHDATA1 instead of the direct push) that denote the same key
//      but hash to a different account.

import (
	"testing"

	"github.com/ontio/ontology-crypto/keypair"
	"github.com/ontio/ontology/common"
	"github.com/ontio/ontology/core/program"
)

func TestC17EthKeyAccountIsNotScriptHash(t *testing.T) {
	_, pub, err := keypair.GenerateKeyPair(keypair.PK_ETHECDSA, nil)
	if err != nil {
		t.Fatal(err)
	}
	validatorAddr := AddressFromPubKey(pub)                              // what checkTransactionSignatures records
	fallbackAddr := common.AddressFromVmCode(program.ProgramFromPubKey(pub)) // what GetSignatureAddresses derives
	// control: an ordinary key agrees
	_, pub2, _ := keypair.GenerateKeyPair(keypair.PK_ECDSA, keypair.P256)
	if AddressFromPubKey(pub2) != common.AddressFromVmCode(program.ProgramFromPubKey(pub2)) {
		t.Fatal("control failed: ordinary key disagrees")
	}
	if validatorAddr == fallbackAddr {
		t.Skip("addresses agree: finding does not reproduce (repaired?)")
	}
	t.Logf("FINDING (1) reproduced: validator account %s, fallback account %s", validatorAddr.ToBase58(), fallbackAddr.ToBase58())
}

func TestC17NonCanonicalScriptAccepted(t *testing.T) {
	_, pub, _ := keypair.GenerateKeyPair(keypair.PK_ECDSA, keypair.P256)
	canonical := program.ProgramFromPubKey(pub)
	key := keypair.SerializePublicKey(pub)
	// PUSHDATA1 <len> <key> CHECKSIG instead of <len as opcode> <key> CHECKSIG
	alt := append([]byte{0x4c, byte(len(key))}, key...)
	alt = append(alt, canonical[len(canonical)-1])
	info, err := program.GetProgramInfo(alt)
	if err != nil {
		t.Skipf("non-canonical script rejected: finding does not reproduce (repaired?): %v", err)
	}
	if len(info.PubKeys) != 1 || info.M != 1 {
		t.Fatalf("unexpected parse result %v", info)
	}
	validatorAddr := AddressFromPubKey(info.PubKeys[0]) // from the parsed key
	fallbackAddr := common.AddressFromVmCode(alt)       // from the raw script
	if validatorAddr == fallbackAddr {
		t.Fatal("accounts agree although the scripts differ")
	}
	t.Logf("FINDING (2) reproduced: same key, script accepted in PUSHDATA1 form: validator account %s, fallback account %s", validatorAddr.ToBase58(), fallbackAddr.ToBase58())
}
