package header_sync

// Demonstration of the C33 finding against the real code: a 4-peer side chain, a header listing
// ONE peer three times with that peer's signature three times. 3*3 >= 2*4, every listed key is a
// member, and VerifyMultiSignature matches each copy of the signature to a different list index,
// so the header is accepted with the signature of 1 of 4 peers.
import (
	"testing"

	"github.com/ontio/ontology-crypto/keypair"
	"github.com/ontio/ontology/account"
	vconfig "github.com/ontio/ontology/consensus/vbft/config"
	"github.com/ontio/ontology/core/signature"
	"github.com/ontio/ontology/core/store/leveldbstore"
	"github.com/ontio/ontology/core/store/overlaydb"
	"github.com/ontio/ontology/smartcontract/service/native"
	ccom "github.com/ontio/ontology/smartcontract/service/native/cross_chain/common"
	"github.com/ontio/ontology/smartcontract/storage"
)

func TestVerifF6DuplicateBookkeeper(t *testing.T) {
	db := storage.NewCacheDB(overlaydb.NewOverlayDB(leveldbstore.NewMemLevelDBStore()))
	ns := &native.NativeService{CacheDB: db}
	accts := []*account.Account{account.NewAccount(""), account.NewAccount(""), account.NewAccount(""), account.NewAccount("")}
	peers := &ConsensusPeers{ChainID: 7, Height: 0, PeerMap: map[string]*Peer{}}
	for i, a := range accts {
		id := vconfig.PubkeyID(a.PublicKey)
		peers.PeerMap[id] = &Peer{Index: uint32(i), PeerPubkey: id}
	}
	if err := putConsensusPeers(ns, peers); err != nil {
		t.Fatal(err)
	}
	a := accts[0]
	hdr := &ccom.Header{ChainID: 7, Height: 5, Bookkeepers: []keypair.PublicKey{a.PublicKey, a.PublicKey, a.PublicKey}}
	h := hdr.Hash()
	sig, err := signature.Sign(a, h[:])
	if err != nil {
		t.Fatal(err)
	}
	hdr.SigData = [][]byte{sig, sig, sig}
	err = VerifyHeader(ns, hdr)
	if err == nil {
		t.Fatalf("VIOLATION: header signed by 1 of 4 peers (listed three times) was accepted")
	}
	t.Logf("rejected: %v", err)
}
