package ledgerstore

import (
	"testing"

	sysconfig "github.com/ontio/ontology/common/config"
	"github.com/ontio/ontology/smartcontract/service/neovm"
)

// C05 / C12: the fee of an invoke transaction is rounded with gasRound = tx.GasPrice * MIN_TRANSACTION_GAS
// (HandleInvokeTransaction -> tuneGasFeeByHeight). MIN_TRANSACTION_GAS = 20000 = 2^5 * 625, so for a gas price
// that is a multiple of 2^59 the product wraps to 0 and (gas + gasRound - 1) / gasRound faults. Block verification
// (txnpool verifyBlock) checks only gasPrice >= minimum; the overflow check of the transaction pool
// (handleTransaction: SafeMul(gasLimit, gasPrice)) is not applied to the transactions of a proposed block.
func TestC05FeeRoundingDividesByZero(t *testing.T) {
	gasPrice := uint64(1) << 59
	gasRound := gasPrice * neovm.MIN_TRANSACTION_GAS
	if gasRound != 0 {
		t.Fatalf("gasRound = %d, expected the product to wrap to 0", gasRound)
	}
	height := sysconfig.GetGasRoundTuneHeight(sysconfig.DefConfig.P2PNode.NetworkId) + 1
	defer func() {
		if r := recover(); r != nil {
			t.Fatalf("tuneGasFeeByHeight faulted: %v", r)
		}
	}()
	fee := tuneGasFeeByHeight(height, 0, gasRound, 1000)
	t.Logf("fee = %d", fee)
}
