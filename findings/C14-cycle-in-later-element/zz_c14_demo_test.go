package types

// Demonstration of the recorded finding of C14/C12/C15: circularRefAndDepthDetection returns from inside each of
// its element loops, so only the FIRST element of an array, struct or map is examined. A reference cycle through
// any later element is not detected; Serialize then recurses until the goroutine stack is exhausted (a fatal
// error that cannot be recovered). For maps the element examined depends on Go's map iteration order.
// (The pinned test TestVmValue_CircularRefAndDepthDetection2 asserts `false` for a genuinely cyclic struct
// whose cycle is in its fifth element, so the behaviour cannot be repaired without editing that test.)

import "testing"

func TestC14CycleInSecondElementNotDetected(t *testing.T) {
	arr := NewArrayValue()
	arr.Append(VmValueFromInt64(1))       // first element: harmless
	arr.Append(VmValueFromArrayVal(arr)) // second element: the array itself
	v := VmValueFromArrayVal(arr)
	circular, err := v.CircularRefAndDepthDetection()
	if err != nil {
		t.Fatal(err)
	}
	// control: the same cycle through the FIRST element is detected
	arr2 := NewArrayValue()
	arr2.Append(VmValueFromArrayVal(arr2))
	v2 := VmValueFromArrayVal(arr2)
	c2, _ := v2.CircularRefAndDepthDetection()
	if !c2 {
		t.Fatal("control failed: cycle through the first element not detected")
	}
	if circular {
		t.Skip("cycle through the second element detected: the finding does not reproduce (repaired?)")
	}
	t.Log("FINDING reproduced: array [1, <itself>] is reported acyclic; Serialize would recurse without bound")
}
