package vbft

// Demonstration of the C31 finding against the real code: N = 7 consensus peers (C = 2), ONE commit
// message from one peer that merely CLAIMS four endorser indices (with junk bytes as "signatures").
// getCommitConsensus / BlockPool.commitDone declare commit consensus for the proposer: claimed endorser
// signatures are counted without ever being verified (service.go: "TODO: verify msg").
import (
	"math"
	"testing"
)

func TestVerifC31ClaimedEndorsersCount(t *testing.T) {
	msg := &blockCommitMsg{
		Committer:     6,
		BlockProposer: 1,
		BlockNum:      10,
		CommitterSig:  []byte("whatever"),
		EndorsersSig:  map[uint32][]byte{2: []byte("junk"), 3: []byte("junk"), 4: []byte("junk"), 5: []byte("junk")},
	}
	proposer, _ := getCommitConsensus([]*blockCommitMsg{msg}, 2, 7)
	if proposer != math.MaxUint32 {
		t.Fatalf("VIOLATION: commit consensus for proposer %d declared from ONE commit message with four unverified claimed endorsers (N=7 needs 5 verifiable signers)", proposer)
	}
}
