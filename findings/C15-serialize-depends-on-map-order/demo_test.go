package types

import (
	"testing"

	"github.com/ontio/ontology/common"
)

// C15: the same NeoVM value must serialize the same way every time. Before fix 23f740a0 the cycle/depth check
// looked at ONE entry of a map, chosen by Go's random map iteration: {1: 0, 2: <arrays nested ten deep>} is
// rejected when entry 2 is looked at (depth 11 from the map) and accepted when entry 1 is (the nested value on
// its own is exactly at the limit). On the unfixed tree this reports e.g. "179 succeeded, 21 failed".
func TestC15SerializeDependsOnMapOrder(t *testing.T) {
	ok, fail := 0, 0
	for run := 0; run < 200; run++ {
		inner := VmValueFromInt64(7)
		for d := 0; d < 10; d++ {
			a := NewArrayValue()
			a.Append(inner)
			inner = VmValueFromArrayVal(a)
		}
		m := NewMapValue()
		m.Set(VmValueFromInt64(1), VmValueFromInt64(0))
		m.Set(VmValueFromInt64(2), inner)
		v := VmValueFromMapValue(m)
		sink := common.NewZeroCopySink(nil)
		if err := v.Serialize(sink); err != nil {
			fail++
		} else {
			ok++
		}
	}
	if ok != 0 && fail != 0 {
		t.Fatalf("the same value serialized 200 times: %d succeeded, %d failed", ok, fail)
	}
	t.Logf("deterministic: %d succeeded, %d failed", ok, fail)
}
