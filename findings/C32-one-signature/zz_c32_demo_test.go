package ledgerstore

// Demonstration of the C32 finding against the real code: 7 consensus peers, C = 2. A synced header
// that LISTS three members as bookkeepers but carries ONE valid signature (m = 7 - 6*7/7 = 1) passes
// verifyHeader: the check counts listed members (>= C+1), not signing members.
import (
	"encoding/json"
	"testing"

	"github.com/ontio/ontology-crypto/keypair"
	"github.com/ontio/ontology/account"
	"github.com/ontio/ontology/common"
	"github.com/ontio/ontology/common/config"
	vconfig "github.com/ontio/ontology/consensus/vbft/config"
	"github.com/ontio/ontology/core/signature"
	"github.com/ontio/ontology/core/types"
)

func TestVerifC32OneSignatureEnough(t *testing.T) {
	old := config.DefConfig.Genesis.ConsensusType
	config.DefConfig.Genesis.ConsensusType = "vbft"
	defer func() { config.DefConfig.Genesis.ConsensusType = old }()

	ls := &LedgerStoreImp{
		headerIndexCache: NewHeaderIndexCache(),
		headerCache:      map[common.Uint256]*types.Header{},
		vbftPeerInfoMap:  map[uint32]map[string]uint32{},
	}
	var accts []*account.Account
	peers := map[string]uint32{}
	var pcs []*vconfig.PeerConfig
	for i := 0; i < 7; i++ {
		a := account.NewAccount("")
		accts = append(accts, a)
		id := vconfig.PubkeyID(a.PublicKey)
		peers[id] = uint32(i + 1)
		pcs = append(pcs, &vconfig.PeerConfig{Index: uint32(i + 1), ID: id})
	}
	// height 0: the block that carries the chain configuration (N = 7, C = 2)
	cfgInfo, _ := json.Marshal(&vconfig.VbftBlockInfo{NewChainConfig: &vconfig.ChainConfig{N: 7, C: 2, Peers: pcs}})
	h0 := &types.Header{Height: 0, Timestamp: 100, ConsensusPayload: cfgInfo}
	ls.headerCache[h0.Hash()] = h0
	ls.setHeaderIndex(0, h0.Hash())
	ls.vbftPeerInfoMap[0] = peers

	info, _ := json.Marshal(&vconfig.VbftBlockInfo{LastConfigBlockNum: 0})
	h1 := &types.Header{Height: 1, Timestamp: 200, PrevBlockHash: h0.Hash(), ConsensusPayload: info,
		Bookkeepers: []keypair.PublicKey{accts[0].PublicKey, accts[1].PublicKey, accts[2].PublicKey}}
	hash := h1.Hash()
	sig, err := signature.Sign(accts[0], hash[:])
	if err != nil {
		t.Fatal(err)
	}
	h1.SigData = [][]byte{sig} // one signature, of one peer out of seven
	if err := ls.verifyHeader(h1); err == nil {
		t.Fatalf("VIOLATION: header with ONE valid signature (N=7, C=2, needs C+1=3) was accepted")
	} else {
		t.Logf("rejected: %v", err)
	}
}
