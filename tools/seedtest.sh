#!/bin/sh
# usage: seedtest.sh <patch.diff> <property-id>...   applies the patch to /repo, runs the checks, reverts.
# The checks rewrite /verif/evidence/<id>.json for the PATCHED tree; the files of the unchanged tree are put back
# afterwards so that a mutant's evidence is never committed (this happened once: C32, see DESIGN.md).
p=$1; shift
[ -z "$(git -C /repo status --porcelain --untracked-files=no)" ] || { echo "/repo has uncommitted changes; commit first"; exit 2; }
git -C /repo apply "$p" || { echo "patch does not apply"; exit 2; }
sav=$(mktemp -d /var/tmp/seedtest-ev.XXXXXX)
cp -a /verif/evidence/. "$sav"/
for id in "$@"; do
  /verif/bin/govc check $id --tier quick 2>&1 | tail -6
  echo "rc=$?"
done
git -C /repo checkout -- .
cp -a "$sav"/. /verif/evidence/
rm -rf "$sav"
