#!/bin/sh
# usage: seedtest.sh <patch.diff> <property-id>...   applies the patch to /repo, runs the checks, reverts
p=$1; shift
[ -z "$(git -C /repo status --porcelain --untracked-files=no)" ] || { echo "/repo has uncommitted changes; commit first"; exit 2; }
git -C /repo apply "$p" || { echo "patch does not apply"; exit 2; }
for id in "$@"; do
  /verif/bin/govc check $id --tier quick 2>&1 | tail -6
  echo "rc=$?"
done
git -C /repo checkout -- . 
