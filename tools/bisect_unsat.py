#!/usr/bin/env python3
"""bisect_unsat.py <file.smt2>: finds the shortest prefix of the assertions that is already unsat."""
import subprocess, sys, re
src = open(sys.argv[1]).read().split("\n")
asserts = [i for i, l in enumerate(src) if l.startswith("(assert")]
def check(n):
    keep = set(asserts[:n])
    body = [l for i, l in enumerate(src) if (not l.startswith("(assert") or i in keep) and not l.startswith("(check-sat")]
    open("/tmp/bis.smt2", "w").write("\n".join(body) + "\n(check-sat)\n")
    out = subprocess.run(["z3-new", "-T:20", "rewriter.flat=false", "/tmp/bis.smt2"], capture_output=True, text=True).stdout.strip().split("\n")[0]
    return out
lo, hi = 0, len(asserts)
print("all:", check(hi))
while lo < hi:
    mid = (lo + hi) // 2
    r = check(mid)
    if r == "unsat":
        hi = mid
    else:
        lo = mid + 1
print("first unsat prefix length:", lo, "of", len(asserts))
for k in range(max(0, lo - 3), lo):
    print(k, src[asserts[k]][:1500])
