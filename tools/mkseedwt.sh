#!/bin/sh
# usage: mkseedwt.sh <id>...  creates /tmp/seed/<id> (detached worktree of /repo HEAD with every verif-tagged file
# removed and that removal committed, so a sub-agent sees nothing of the verification machinery and `git diff`
# shows only its own change) and /tmp/seed-prop/<id>.json (the property text), /tmp/seed-out/<id>/{A,B}.
for id in "$@"; do
  wt=/tmp/seed/$id
  [ -d "$wt" ] && { echo "$wt exists"; continue; }
  mkdir -p /tmp/seed /tmp/seed-prop /tmp/seed-out/$id/A /tmp/seed-out/$id/B
  git -C /repo worktree add -q --detach "$wt" HEAD || exit 1
  (cd "$wt" && git rm -q -r common/verifhook $(git ls-files '*zz_verif*') && git -c user.name=s -c user.email=s@s commit -q -m "scratch base" )
  python3 - "$id" <<'PY'
import json,sys
for l in open('/verif/properties.jsonl'):
    p=json.loads(l)
    if p['id']==sys.argv[1]:
        json.dump({k:p[k] for k in ('id','title','statement','quantifier','why_tests_cant','anchors')}, open('/tmp/seed-prop/%s.json'%p['id'],'w'), indent=1)
PY
  echo "ready $wt"
done
