#!/bin/sh
# usage: mkmutant.sh <id> <name> <repo-relative-file> <sed-expression> [expect] [note]
# writes /verif/selftest/<id>/<name>.patch (unified diff against /repo's current file)
id=$1; name=$2; f=$3; expr=$4; expect=${5:-fail}; note=${6:-}
mkdir -p /verif/selftest/$id
tmp=$(mktemp -d)
mkdir -p $tmp/a/$(dirname $f) $tmp/b/$(dirname $f)
cp /repo/$f $tmp/a/$f; cp /repo/$f $tmp/b/$f
sed -i "$expr" $tmp/b/$f
if cmp -s $tmp/a/$f $tmp/b/$f; then echo "mutant $name: sed expression changed nothing"; rm -rf $tmp; exit 1; fi
(cd $tmp && diff -u a/$f b/$f) > /verif/selftest/$id/$name.patch
printf '{"expect": "%s", "note": "%s"}\n' "$expect" "$note" > /verif/selftest/$id/$name.json
rm -rf $tmp
echo "wrote $name"
