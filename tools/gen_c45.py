#!/usr/bin/env python3
"""Generates the entry-point contracts of C45 (ontid): for every function that calls an authorization primitive,
one `check at call <mutator>#k` per mutating call, demanding the ghost flag of that primitive for the SAME identity
variable. Output is appended by hand to smartcontract/service/native/ontid/zz_verif_contracts.go (the generator is
a writing aid: the generated text is what is checked, and it is reviewed there)."""
import re, sys, glob
MUT = ['insertPk','revokePk','revokePkByIndex','changePkAuthentication','deleteID','batchInsertAttr','insertOrUpdateAttr',
       'deleteAttr','deleteAllAttr','putService','deleteService','putContexts','deleteContexts','setOldRecovery','setRecovery',
       'putRecovery','putController','updateTimeAndClearProof','createTimeAndClearProof','PutBytes','DelStorageItem','Put','Delete']
src = {}
for f in glob.glob('/repo/smartcontract/service/native/ontid/*.go'):
    if f.endswith('_test.go') or 'zz_verif' in f: continue
    src[f] = open(f).read()
out = []
for f, s in sorted(src.items()):
    for m in re.finditer(r'^func (\w+)\(srvc \*native\.NativeService\) \(\[\]byte, error\) \{\n(.*?)^\}', s, re.S | re.M):
        name, body = m.group(1), m.group(2)
        auth = None
        for pat, kind in [(r'checkWitnessByIndex\(srvc, (\w+),', 'AUTHID'), (r'verifyControllerSignature\(srvc, (\w+),', 'CTRLOK'),
                          (r'verifyGroupSignature\(srvc, (\w+),', 'GRPOK'), (r'checkWitness\(srvc, (\w+)(?:\[:\])?\)', 'KEYW')]:
            mm = re.search(pat, body)
            if mm:
                auth = (kind, mm.group(1)); break
        if not auth: continue
        calls = []
        cnt = {}
        for cm in re.finditer(r'\b(?:utils\.|srvc\.CacheDB\.)?(\w+)\(', body):
            c = cm.group(1)
            if c in MUT:
                cnt[c] = cnt.get(c, 0) + 1
                calls.append((c, cnt[c], cm.start()))
        # only calls textually after the auth check
        apos = re.search(r'checkWitnessByIndex\(|verifyControllerSignature\(|verifyGroupSignature\(|checkWitness\(', body).start()
        kind, var = auth
        if kind == 'AUTHID': cond = 'AUTHID[idk(%s)] == 1' % var
        elif kind == 'CTRLOK': cond = 'CTRLOK[idk(%s)] == 1' % var
        elif kind == 'GRPOK': cond = 'GRPOK[%s] == 1' % var
        else: cond = 'KEYW[kid(%s)] == 1' % var
        out.append('//@ func %s' % name)
        out.append('//@   arith int')
        out.append('//@   abstract')
        out.append('//@   requires srvc != nil')
        out.append('//@   assigns AUTHID, CTRLOK, GRPOK, KEYW, OWNK')
        for c, k, pos in calls:
            tag = 'authorized' if pos > apos else 'BEFORE-AUTH'
            out.append('//@   check at call %s#%d: #%s-%s%d: %s' % (c, k, tag, c, k, cond))
        out.append('')
print('\n'.join(out))
