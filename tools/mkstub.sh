#!/bin/sh
# Builds the link stub for the (empty) wasm JIT archive, used only to LINK replay tests of packages
# that import smartcontract/service/wasmvm. Every stub aborts if called.
set -e
mkdir -p /verif/bin
if [ -f /verif/replay/wasmstub/stub.c ]; then
  gcc -c -O1 -o /verif/bin/wasmstub.o /verif/replay/wasmstub/stub.c
  ar rcs /verif/bin/libwasmjitstub.a /verif/bin/wasmstub.o
fi
exit 0
