#!/usr/bin/env python3
"""confirm_seed.py <id> <X>: re-checks a sub-agent's seeded change in its scratch worktree and, if it holds up,
copies it to /verif/seeded/<id>-<X>/ (patch.diff, demo, meta.json with what was run)."""
import json, os, re, shutil, subprocess, sys
pid, x = sys.argv[1], sys.argv[2]
src = f"/tmp/seed-out/{pid}/{x}"
wt = f"/tmp/seed/{pid}"
meta = json.load(open(f"{src}/meta.json"))
env = dict(os.environ, GOFLAGS="-mod=mod", GOPROXY="off", GOSUMDB="off", GOTOOLCHAIN="local",
           CGO_LDFLAGS="-Wl,--unresolved-symbols=ignore-all", CGO_LDFLAGS_ALLOW=".*")
def sh(cmd, cwd=wt, timeout=1500):
    p = subprocess.run(cmd, shell=True, cwd=cwd, env=env, stdout=subprocess.PIPE, stderr=subprocess.STDOUT, text=True, timeout=timeout)
    return p.returncode, p.stdout
sh("git checkout -- . && git clean -fdq")
dest = meta["demo_dest"]
demo_cmd = meta["demo_cmd"]
m = re.search(r"(go test .*)$", demo_cmd)
gocmd = m.group(1).strip()
gocmd = re.sub(r"CGO_LDFLAGS='[^']*'\s*", "", gocmd)
os.makedirs(os.path.dirname(f"{wt}/{dest}"), exist_ok=True)
shutil.copy(f"{src}/demo_test.go.txt", f"{wt}/{dest}")
res = {}
rc, out = sh(gocmd)
res["demo_unpatched_rc"] = rc
res["demo_unpatched_tail"] = out[-600:]
patch = open(f"{src}/patch.diff").read()
files = re.findall(r"^\+\+\+ b/(\S+)", patch, re.M)
pkgs = sorted({"./" + os.path.dirname(f) + "/" for f in files})
# existing tests before patch (without demo)
os.remove(f"{wt}/{dest}")
base = {}
for p in pkgs:
    rc0, out0 = sh(f"go test -vet=off -count=1 {p}")
    base[p] = rc0
rc, out = sh(f"git apply {src}/patch.diff")
res["apply_rc"] = rc
shutil.copy(f"{src}/demo_test.go.txt", f"{wt}/{dest}")
rc, out = sh(gocmd)
res["demo_patched_rc"] = rc
res["demo_patched_tail"] = out[-900:]
os.remove(f"{wt}/{dest}")
patched = {}
for p in pkgs:
    rc1, out1 = sh(f"go test -vet=off -count=1 {p}")
    patched[p] = rc1
    if rc1 != base[p]:
        res.setdefault("existing_diff", []).append(p + ": " + out1[-400:])
rc, out = sh("go build " + " ".join(pkgs))
res["build_rc"] = rc
res["existing_tests_unpatched"] = base
res["existing_tests_patched"] = patched
sh("git checkout -- . && git clean -fdq")
ok = res["demo_unpatched_rc"] == 0 and res["demo_patched_rc"] != 0 and res["apply_rc"] == 0 and res["build_rc"] == 0 and base == patched
res["confirmed"] = ok
print(json.dumps({k: v for k, v in res.items() if not k.endswith("_tail")}, indent=1))
if not ok:
    print(res.get("demo_unpatched_tail"), res.get("demo_patched_tail"))
    sys.exit(1)
out_dir = f"/verif/seeded/{pid}-{x}"
os.makedirs(out_dir, exist_ok=True)
shutil.copy(f"{src}/patch.diff", f"{out_dir}/patch.diff")
shutil.copy(f"{src}/demo_test.go.txt", f"{out_dir}/demo_test.go.txt")
meta_out = {"property": pid, "summary": meta.get("summary"), "functions_changed": meta.get("functions_changed"),
            "needs_to_manifest": meta.get("needs_to_manifest"), "demo_dest": dest, "demo_cmd": gocmd,
            "confirmed_by_main_session": {"what_was_run": ["demo on unpatched worktree (rc %d)" % res["demo_unpatched_rc"],
                "demo on patched worktree (rc %d)" % res["demo_patched_rc"],
                "existing tests of touched packages before/after: %s / %s" % (base, patched), "go build of touched packages (rc %d)" % res["build_rc"]],
                "note": "link workaround CGO_LDFLAGS=-Wl,--unresolved-symbols=ignore-all used for packages importing the wasm JIT"}}
json.dump(meta_out, open(f"{out_dir}/meta.json", "w"), indent=1)
print("saved", out_dir)
