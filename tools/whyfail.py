#!/usr/bin/env python3
"""whyfail.py <file.smt2>: for a sat obligation, evaluate every top-level conjunct of the negated goal in the model
and print the ones that are false (debug aid)."""
import sys, re, subprocess
s = open(sys.argv[1]).read()
i = s.rfind('(assert (not ')
j = s.find('\n', i)
goal = s[i+len('(assert (not '):j].rstrip()[:-2]
def split_and(t):
    t = t.strip()
    out = []
    def args(t):
        d = 0; cur = ''; res = []
        for ch in t:
            if ch == '(':
                d += 1
            if ch == ')':
                d -= 1
            if ch.isspace() and d == 0:
                if cur: res.append(cur); cur = ''
            else:
                cur += ch
        if cur: res.append(cur)
        return res
    if t.startswith('(and '):
        for a in args(t[5:-1]):
            out += split_and(a)
    elif t.startswith('(=> '):
        a = args(t[4:-1])
        if len(a) == 2:
            for c in split_and(a[1]):
                out.append('(=> %s %s)' % (a[0], c))
        else:
            out.append(t)
    else:
        out.append(t)
    return out
cs = split_and(goal)
q = s.replace('(get-model)', '')
q = q.replace('(check-sat)', '(check-sat)\n(get-value (' + ' '.join(cs) + '))', 1)
open('/tmp/whyfail.smt2', 'w').write(q)
r = subprocess.run(['z3-new', '/tmp/whyfail.smt2'], capture_output=True, text=True).stdout
print(r.split('\n')[0])
vals = re.findall(r'\s(true|false)\)', r)
for c, v in zip(cs, vals):
    if v == 'false':
        print('FALSE:', c[:600])
