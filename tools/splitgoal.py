#!/usr/bin/env python3
"""splitgoal.py <file.smt2> [timeout_s]: split the goal of an undecided obligation into its top-level conjuncts
and try each one separately with z3-new (debug aid: shows which conjunct the solver cannot discharge)."""
import sys, subprocess, concurrent.futures, tempfile, os
s = open(sys.argv[1]).read()
to = sys.argv[2] if len(sys.argv) > 2 else '5'
i = s.rfind('(assert (not ')
j = s.find('\n', i)
goal = s[i+len('(assert (not '):j].rstrip()[:-2]
def args(t):
    d = 0; cur = ''; res = []
    for ch in t:
        if ch == '(': d += 1
        if ch == ')': d -= 1
        if ch.isspace() and d == 0:
            if cur: res.append(cur); cur = ''
        else: cur += ch
    if cur: res.append(cur)
    return res
SK = []
def split_and(t):
    t = t.strip(); out = []
    if t.startswith('(and '):
        for a in args(t[5:-1]): out += split_and(a)
    elif t.startswith('(=> '):
        a = args(t[4:-1])
        if len(a) == 2:
            for c in split_and(a[1]): out.append('(=> %s %s)' % (a[0], c))
        else: out.append(t)
    elif t.startswith('(forall '):
        # skolemize: (forall (binders) (! body :pattern ..)) or (forall (binders) body) -> body over fresh constants
        a = args(t[len('(forall '):-1])
        binders = args(a[0][1:-1])
        body = a[1]
        if body.startswith('(! '):
            body = args(body[3:-1])[0]
        for b in binders:
            nm, so = args(b[1:-1])[0], ' '.join(args(b[1:-1])[1:])
            d = '(declare-const %s_sk %s)' % (nm, so)
            if d not in SK: SK.append(d)
            import re
            body = re.sub(r'(?<![\w!@|])' + re.escape(nm) + r'(?![\w!@|])', nm + '_sk', body)
        out += split_and(body)
    else: out.append(t)
    return out
cs = split_and(goal)
def run(c):
    q = s[:i] + '\n'.join(SK) + '\n(assert (not %s))\n' % c + s[j:]
    q = q.replace('(get-model)', '')
    f = tempfile.NamedTemporaryFile('w', suffix='.smt2', delete=False); f.write(q); f.close()
    try:
        r = subprocess.run(['z3-new', '-T:' + to, f.name], capture_output=True, text=True).stdout.split('\n')[0]
    finally:
        os.unlink(f.name)
    return r
with concurrent.futures.ThreadPoolExecutor(8) as ex:
    for c, r in zip(cs, ex.map(run, cs)):
        print(r, c[:300])
