#!/usr/bin/env python3
"""Regenerates /verif/MANIFEST.json from tools/claims.json (claimed checks) and tools/na.json."""
import json, os, subprocess
root = os.path.dirname(os.path.dirname(os.path.abspath(__file__)))
claims = json.load(open(os.path.join(root, "tools", "claims.json")))
na = json.load(open(os.path.join(root, "tools", "na.json")))
props = [json.loads(l) for l in open(os.path.join(root, "properties.jsonl"))]
ids = [p["id"] for p in props]
checks = []
for c in claims:
    pid = c["id"]
    checks.append({
        "property_id": pid,
        "quick_cmd": f"/verif/bin/govc check {pid} --tier quick",
        "thorough_cmd": f"/verif/bin/govc check {pid} --tier thorough",
        "evidence_file": f"/verif/evidence/{pid}.json",
        "replay_cmd_template": "/verif/bin/govc replay {path}",
        "engine": "govc",
        "level_claimed": {"category": c.get("category", "proof"), "text": c["text"], "design_ref": c.get("design_ref", "DESIGN.md §11 " + pid)},
        "level_note": c["note"],
        "technique": c.get("technique", "contract-based deductive verification: weakest-precondition VCs generated from go/ssa of the real functions, contracts in //@ comments (tag verif), discharged by z3/cvc5"),
    })
claimed = {c["id"] for c in claims}
nalist = []
for pid in ids:
    if pid in claimed:
        continue
    if pid not in na:
        raise SystemExit(f"{pid} neither claimed nor in na.json")
    nalist.append({"property_id": pid, "reason": na[pid]})
try:
    hook_commits = subprocess.check_output(["git", "-C", "/repo", "log", "--format=%H %s"], text=True).splitlines()
    # a hook commit: message says so, or (driver snapshot commits) it touches nothing but guarded hook files
    def only_hook_files(h):
        fs = subprocess.check_output(["git", "-C", "/repo", "show", "--name-only", "--format=", h], text=True).split()
        return bool(fs) and all(f.endswith("zz_verif_contracts.go") or f.startswith("common/verifhook/") for f in fs)
    hook_commits = [l.split()[0] for l in hook_commits
                    if " verif hooks" in l or (" fix:" not in l and "snapshot" not in l and only_hook_files(l.split()[0]))]
except Exception:
    hook_commits = []
m = {
    "version": 1,
    "setup_cmd": "cd /verif/govc && GOFLAGS=-mod=mod GOPROXY=off GOSUMDB=off GOTOOLCHAIN=local go build -o /verif/bin/govc . && /verif/tools/mkstub.sh",
    "hooks": {
        "guard": "verif",
        "enable": "-tags verif (go/packages BuildFlags; contract files zz_verif_contracts.go and package common/verifhook are compiled only with the tag)",
        "baseline_off_cmd": "cd /repo && go test -mod=mod -json -vet=off -count=1 -timeout 25m ./...",
        "source_commits": hook_commits,
        "add_only": True,
    },
    "engines": [{"name": "govc", "path": "/verif/govc", "serves_properties": sorted(claimed),
                 "kind_free_text": "self-written deductive verifier for Go: go/packages + go/ssa -> weakest-precondition verification conditions (loops cut at invariants, calls by contract, frames, ghost state) -> SMT-LIB, raced on z3 4.8.12 / z3 5.1.0 / cvc5 1.0"}],
    "checks": checks,
    "not_applicable": nalist,
    "notes": "Contracts live in /repo/**/zz_verif_contracts.go behind build tag `verif`. See DESIGN.md.",
}
json.dump(m, open(os.path.join(root, "MANIFEST.json"), "w"), indent=1)
print("claimed", len(checks), "not_applicable", len(nalist))
