#!/bin/sh
# usage: runall.sh [quick|thorough]
# Pre-commit gate: runs MANIFEST.setup_cmd, then every check of MANIFEST.json on the CURRENT /repo tree exactly as
# the harness does (evidence file removed first, VERIF_SEED=1), and fails unless every check exits 0, prints no
# VIOLATION line, rewrites its evidence file, and that file validates against the schema with
# discharged == obligations > 0, violations == 0 and the tier that was run. Run it after ANY change to the engine
# or to a shared contract file (common/verifhook, core/signature): contracts are shared between properties.
tier=${1:-quick}
export CARGO_NET_OFFLINE=true GOPROXY=off PIP_NO_INDEX=1 VERIF_SEED=1 VERIF_TIER=$tier
cd /verif || exit 2
[ -z "$(git -C /repo status --porcelain --untracked-files=no)" ] || echo "note: /repo has uncommitted changes"
sh -c "$(jq -r .setup_cmd MANIFEST.json)" || { echo "SETUP FAILED"; exit 1; }
bad=0
for id in $(jq -r '.checks[].property_id' MANIFEST.json); do
  cmd=$(jq -r --arg id "$id" --arg k "${tier}_cmd" '.checks[]|select(.property_id==$id)|.[$k]' MANIFEST.json)
  ev=$(jq -r --arg id "$id" '.checks[]|select(.property_id==$id)|.evidence_file' MANIFEST.json)
  rm -f "$ev"
  log=/verif/out/runall-$id.log
  t0=$(date +%s)
  sh -c "$cmd" >"$log" 2>&1
  rc=$?
  t1=$(date +%s)
  msg=""
  [ $rc -eq 0 ] || msg="$msg exit=$rc"
  grep -q '^VIOLATION' "$log" && msg="$msg VIOLATION-line"
  if [ ! -s "$ev" ]; then
    msg="$msg evidence-not-rewritten"
  else
    r=$(python3-vt - "$ev" "$id" "$tier" <<'EOF'
import json, sys, jsonschema
ev = json.load(open(sys.argv[1]))
schema = json.load(open('/root/.vp/EVIDENCE.schema.json'))
errs = [e.message[:120] for e in jsonschema.Draft202012Validator(schema).iter_errors(ev)]
c = ev.get('coverage', {})
if ev.get('property_id') != sys.argv[2]: errs.append('property_id')
if ev.get('tier') != sys.argv[3]: errs.append('tier')
if ev.get('level') == 'proof' and (c.get('obligations', 0) <= 0 or c.get('discharged') != c.get('obligations')):
    errs.append('discharged %s != obligations %s' % (c.get('discharged'), c.get('obligations')))
if ev.get('violations', 0) != 0: errs.append('violations=%s' % ev.get('violations'))
print('; '.join(errs))
EOF
)
    [ -z "$r" ] || msg="$msg evidence-invalid($r)"
  fi
  if [ -n "$msg" ]; then bad=1; echo "FAIL $id:$msg ($((t1-t0)) s)  log $log"; else echo "ok   $id ($((t1-t0)) s) $(tail -1 "$log")"; fi
done
exit $bad
