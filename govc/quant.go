// Helpers for quantifiers over slice positions (see the "forall" case in trans.go).
package main

import "strings"

// the binder "(q_i sort)" ranges over 64-bit integers / mathematical integers
func so64(b string) bool {
	return strings.HasSuffix(b, " (_ BitVec 64))") || strings.HasSuffix(b, " Int)")
}

func mentionsVar(e *Expr, v string) bool {
	if e == nil {
		return false
	}
	if e.Op == "id" && e.Val == v {
		return true
	}
	if (e.Op == "forall" || e.Op == "exists") && len(e.Vars) > 0 {
		for _, b := range e.Vars {
			if b.Name == v {
				return false
			}
		}
	}
	for _, a := range e.Args {
		if mentionsVar(a, v) {
			return true
		}
	}
	return false
}

// index expression = v + c (c free of v)? returns (ok, c) with c == nil for plain v.
func linearIn(e *Expr, v string) (bool, *Expr) {
	if e.Op == "id" && e.Val == v {
		return true, nil
	}
	// conversions like uint64(i) / int(i) keep the value for in-range positions; not unwrapped here
	if e.Op == "bin" && e.Val == "+" {
		l, r := e.Args[0], e.Args[1]
		if !mentionsVar(r, v) {
			if ok, c := linearIn(l, v); ok {
				if c == nil {
					return true, r
				}
				return true, &Expr{Op: "bin", Val: "+", Args: []*Expr{c, r}}
			}
		}
		if !mentionsVar(l, v) {
			if ok, c := linearIn(r, v); ok {
				if c == nil {
					return true, l
				}
				return true, &Expr{Op: "bin", Val: "+", Args: []*Expr{l, c}}
			}
		}
	}
	return false, nil
}

// first index node s[v + c] (outside old(...)) with s free of v; falls back to one inside old(...)
func findPrimaryIndex(body *Expr, v string) (prim, sl, off *Expr) {
	var walk func(e *Expr, inOld bool, wantOld bool)
	walk = func(e *Expr, inOld bool, wantOld bool) {
		if e == nil || prim != nil {
			return
		}
		if e.Op == "forall" || e.Op == "exists" {
			return
		}
		if e.Op == "idx" && inOld == wantOld && !mentionsVar(e.Args[0], v) {
			if ok, c := linearIn(e.Args[1], v); ok {
				prim, sl, off = e, e.Args[0], c
				return
			}
		}
		nowOld := inOld
		if e.Op == "call" && e.Args[0].Op == "id" && e.Args[0].Val == "old" {
			nowOld = true
		}
		for _, a := range e.Args {
			walk(a, nowOld, wantOld)
		}
	}
	walk(body, false, false)
	if prim == nil {
		walk(body, false, true)
	}
	return
}
