// Helpers for quantifiers over slice positions (see the "forall" case in trans.go).
package main

import (
	"fmt"
	"go/token"
	"strings"

	"golang.org/x/tools/go/ssa"
)

// the binder "(q_i sort)" ranges over 64-bit integers / mathematical integers
func so64(b string) bool {
	return strings.HasSuffix(b, " (_ BitVec 64))") || strings.HasSuffix(b, " Int)")
}

func mentionsVar(e *Expr, v string) bool {
	if e == nil {
		return false
	}
	if e.Op == "id" && e.Val == v {
		return true
	}
	if (e.Op == "forall" || e.Op == "exists") && len(e.Vars) > 0 {
		for _, b := range e.Vars {
			if b.Name == v {
				return false
			}
		}
	}
	for _, a := range e.Args {
		if mentionsVar(a, v) {
			return true
		}
	}
	return false
}

// index expression = v + c (c free of v)? returns (ok, c) with c == nil for plain v.
func linearIn(e *Expr, v string) (bool, *Expr) {
	if e.Op == "id" && e.Val == v {
		return true, nil
	}
	// conversions like uint64(i) / int(i) keep the value for in-range positions; not unwrapped here
	if e.Op == "bin" && e.Val == "+" {
		l, r := e.Args[0], e.Args[1]
		if !mentionsVar(r, v) {
			if ok, c := linearIn(l, v); ok {
				if c == nil {
					return true, r
				}
				return true, &Expr{Op: "bin", Val: "+", Args: []*Expr{c, r}}
			}
		}
		if !mentionsVar(l, v) {
			if ok, c := linearIn(r, v); ok {
				if c == nil {
					return true, l
				}
				return true, &Expr{Op: "bin", Val: "+", Args: []*Expr{l, c}}
			}
		}
	}
	return false, nil
}

// first index node s[v + c] (outside old(...)) with s free of v; falls back to one inside old(...)
func findPrimaryIndex(body *Expr, v string) (prim, sl, off *Expr) {
	var nested []string // variables bound by quantifiers nested inside the one being transformed
	var walk func(e *Expr, inOld bool, wantOld bool)
	walk = func(e *Expr, inOld bool, wantOld bool) {
		if e == nil || prim != nil {
			return
		}
		if e.Op == "forall" || e.Op == "exists" {
			// an occurrence s[v + c] inside a nested quantifier still counts, as long as the nested quantifier
			// does not rebind v and the occurrence does not mention the nested variables
			for _, b := range e.Vars {
				if b.Name == v {
					return
				}
			}
			save := len(nested)
			for _, b := range e.Vars {
				nested = append(nested, b.Name)
			}
			for _, a := range e.Args {
				walk(a, inOld, wantOld)
			}
			nested = nested[:save]
			return
		}
		if e.Op == "idx" && inOld == wantOld && !mentionsVar(e.Args[0], v) {
			free := true
			for _, nv := range nested {
				if mentionsVar(e.Args[0], nv) || mentionsVar(e.Args[1], nv) {
					free = false
				}
			}
			if ok, c := linearIn(e.Args[1], v); ok && free {
				prim, sl, off = e, e.Args[0], c
				return
			}
		}
		nowOld := inOld
		if e.Op == "call" && e.Args[0].Op == "id" && e.Args[0].Val == "old" {
			nowOld = true
		}
		for _, a := range e.Args {
			walk(a, nowOld, wantOld)
		}
	}
	walk(body, false, false)
	if prim == nil {
		walk(body, false, true)
	}
	return
}

// bitwise operators on mathematical integers (int mode): uninterpreted functions shared by code and specs
func (g *Gen) needBitFns() {
	if g.prelSeen["bitfns"] {
		return
	}
	g.prelSeen["bitfns"] = true
	g.prel = append(g.prel, "(declare-fun bitand (Int Int) Int)", "(declare-fun bitor (Int Int) Int)", "(declare-fun bitxor (Int Int) Int)")
	g.assumptions["int mode: &, |, ^ on integers are the (uninterpreted) bitwise functions of the infinite two's-complement representation; machine operations on in-range operands coincide with them"] = true
}

// pow2(n) = 2^n as an uninterpreted function with its basic facts (int mode)
func (g *Gen) needPow2() {
	if g.prelSeen["pow2"] {
		return
	}
	g.prelSeen["pow2"] = true
	g.prel = append(g.prel, "(declare-fun pow2 (Int) Int)")
	g.assumeGlobal("(forall ((n Int)) (! (=> (>= n 0) (>= (pow2 n) 1)) :pattern ((pow2 n))))")
	g.assumeGlobal("(and (= (pow2 0) 1) (= (pow2 1) 2) (= (pow2 8) 256) (= (pow2 63) 9223372036854775808) (= (pow2 64) 18446744073709551616))")
}

// monotoneCounter: phi is the index of a `range` loop over a slice/array/string as go/ssa builds it:
// one edge is the constant start value (-1), the other is phi + 1. The loop condition keeps the index
// below the length, so it never wraps and stays >= the start value.
func monotoneCounter(phi *ssa.Phi) (int64, bool) {
	lo, _, ok := rangeCounter(phi)
	return lo, ok
}

// rangeCounter also returns the loop bound n of the header test `phi + 1 < n` (nil if not found):
// at the loop head  start <= phi < n  (or phi == start when n <= 0).
func rangeCounter(phi *ssa.Phi) (int64, ssa.Value, bool) {
	lo, ok := rangeCounter0(phi)
	if !ok {
		return 0, nil, false
	}
	for _, in := range phi.Block().Instrs {
		if b, ok := in.(*ssa.BinOp); ok && b.Op == token.LSS {
			if inc, ok := b.X.(*ssa.BinOp); ok && inc.Op == token.ADD && inc.X == ssa.Value(phi) {
				return lo, b.Y, true
			}
		}
	}
	return lo, nil, true
}

func rangeCounter0(phi *ssa.Phi) (int64, bool) {
	if phi.Comment != "rangeindex" || len(phi.Edges) < 2 {
		return 0, false
	}
	// one entry edge carrying the start constant; every back edge (there is one per `continue` and
	// per branch that ends the body) carries the same incremented value
	var start *ssa.Const
	var inc *ssa.BinOp
	for _, e := range phi.Edges {
		switch x := e.(type) {
		case *ssa.Const:
			if start != nil {
				return 0, false
			}
			start = x
		case *ssa.BinOp:
			if inc != nil && inc != x {
				return 0, false
			}
			inc = x
		default:
			return 0, false
		}
	}
	if start == nil || inc == nil || inc.Op != token.ADD || inc.X != ssa.Value(phi) {
		return 0, false
	}
	c, ok := inc.Y.(*ssa.Const)
	if !ok || c.Int64() != 1 {
		return 0, false
	}
	return start.Int64(), true
}

// newRefNumeral: the reference of an object allocated by the function under verification: a distinct
// numeral >= refBound that is not an embedded sub-object (fldtag 0).
func (g *Gen) newRefNumeral() string {
	n := fmt.Sprintf("%d", 1000000000+g.nfresh)
	g.needFldTag()
	g.assumeGlobal(fmt.Sprintf("(= (fldtag %s) 0)", n))
	return n
}

// fldtag(ref) is the code of the (struct type, field) an embedded sub-object reference was derived
// from, 0 for whole objects allocated during the function: different codes => different references.
func (g *Gen) needFldTag() {
	if g.prelSeen["fldtag"] {
		return
	}
	g.prelSeen["fldtag"] = true
	g.prel = append(g.prel, "(declare-fun fldtag (Int) Int)")
}

var fldCodes = map[string]int{}

func fldCode(fn string) int {
	if c, ok := fldCodes[fn]; ok {
		return c
	}
	fldCodes[fn] = len(fldCodes) + 1
	return fldCodes[fn]
}
