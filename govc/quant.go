// Helpers for quantifiers over slice positions (see the "forall" case in trans.go).
package main

import "strings"

// the binder "(q_i sort)" ranges over 64-bit integers / mathematical integers
func so64(b string) bool {
	return strings.HasSuffix(b, " (_ BitVec 64))") || strings.HasSuffix(b, " Int)")
}

func mentionsVar(e *Expr, v string) bool {
	if e == nil {
		return false
	}
	if e.Op == "id" && e.Val == v {
		return true
	}
	if (e.Op == "forall" || e.Op == "exists") && len(e.Vars) > 0 {
		for _, b := range e.Vars {
			if b.Name == v {
				return false
			}
		}
	}
	for _, a := range e.Args {
		if mentionsVar(a, v) {
			return true
		}
	}
	return false
}

// index expression = v + c (c free of v)? returns (ok, c) with c == nil for plain v.
func linearIn(e *Expr, v string) (bool, *Expr) {
	if e.Op == "id" && e.Val == v {
		return true, nil
	}
	// conversions like uint64(i) / int(i) keep the value for in-range positions; not unwrapped here
	if e.Op == "bin" && e.Val == "+" {
		l, r := e.Args[0], e.Args[1]
		if !mentionsVar(r, v) {
			if ok, c := linearIn(l, v); ok {
				if c == nil {
					return true, r
				}
				return true, &Expr{Op: "bin", Val: "+", Args: []*Expr{c, r}}
			}
		}
		if !mentionsVar(l, v) {
			if ok, c := linearIn(r, v); ok {
				if c == nil {
					return true, l
				}
				return true, &Expr{Op: "bin", Val: "+", Args: []*Expr{l, c}}
			}
		}
	}
	return false, nil
}

// first index node s[v + c] (outside old(...)) with s free of v; falls back to one inside old(...)
func findPrimaryIndex(body *Expr, v string) (prim, sl, off *Expr) {
	var walk func(e *Expr, inOld bool, wantOld bool)
	walk = func(e *Expr, inOld bool, wantOld bool) {
		if e == nil || prim != nil {
			return
		}
		if e.Op == "forall" || e.Op == "exists" {
			return
		}
		if e.Op == "idx" && inOld == wantOld && !mentionsVar(e.Args[0], v) {
			if ok, c := linearIn(e.Args[1], v); ok {
				prim, sl, off = e, e.Args[0], c
				return
			}
		}
		nowOld := inOld
		if e.Op == "call" && e.Args[0].Op == "id" && e.Args[0].Val == "old" {
			nowOld = true
		}
		for _, a := range e.Args {
			walk(a, nowOld, wantOld)
		}
	}
	walk(body, false, false)
	if prim == nil {
		walk(body, false, true)
	}
	return
}

// bitwise operators on mathematical integers (int mode): uninterpreted functions shared by code and specs
func (g *Gen) needBitFns() {
	if g.prelSeen["bitfns"] {
		return
	}
	g.prelSeen["bitfns"] = true
	g.prel = append(g.prel, "(declare-fun bitand (Int Int) Int)", "(declare-fun bitor (Int Int) Int)", "(declare-fun bitxor (Int Int) Int)")
	g.assumptions["int mode: &, |, ^ on integers are the (uninterpreted) bitwise functions of the infinite two's-complement representation; machine operations on in-range operands coincide with them"] = true
}

// pow2(n) = 2^n as an uninterpreted function with its basic facts (int mode)
func (g *Gen) needPow2() {
	if g.prelSeen["pow2"] {
		return
	}
	g.prelSeen["pow2"] = true
	g.prel = append(g.prel, "(declare-fun pow2 (Int) Int)")
	g.assumeAlways("(forall ((n Int)) (! (=> (>= n 0) (>= (pow2 n) 1)) :pattern ((pow2 n))))")
	g.assumeAlways("(and (= (pow2 0) 1) (= (pow2 1) 2) (= (pow2 8) 256) (= (pow2 63) 9223372036854775808) (= (pow2 64) 18446744073709551616))")
}
