// Ghost updates at program points:  //@ ghost at <anchor>: G = e   |   //@ ghost at <anchor>: G[k] = e
package main

import (
	"fmt"
	"strings"
)

type GhostAt struct {
	Anchor string
	Lhs    *Expr
	Rhs    *Expr
}

func (g *Gen) ghostAtAnchor(anchor string, env *TEnv) {
	c := g.fr.c
	if c == nil || g.fr.inl {
		return
	}
	for _, ga := range c.GhostAts {
		if ga.Anchor != anchor {
			continue
		}
		if g.firedAnchors == nil {
			g.firedAnchors = map[string]bool{}
		}
		g.firedAnchors["ghost:"+anchor] = true
		e2 := g.curEnv()
		for k, v := range env.vars {
			if _, exists := e2.vars[k]; !exists {
				e2.vars[k] = v
			}
			e2.vars["callee_"+k] = v
		}
		e2.oldEntry = true
		rhs := g.trans(ga.Rhs, e2)
		switch ga.Lhs.Op {
		case "id":
			gv, ok := g.w.DB.Ghosts[ga.Lhs.Val]
			if !ok {
				g.fail("ghost at: %s is not a ghost variable", ga.Lhs.Val)
			}
			n, _, _ := g.ghostComp(gv)
			g.cur[n] = g.define("H_"+n, g.comps[n], rhs.t)
		case "idx":
			if ga.Lhs.Args[0].Op != "id" {
				g.fail("ghost at: bad left-hand side %s", ga.Lhs)
			}
			gv, ok := g.w.DB.Ghosts[ga.Lhs.Args[0].Val]
			if !ok {
				g.fail("ghost at: %s is not a ghost variable", ga.Lhs.Args[0].Val)
			}
			n, _, so := g.ghostComp(gv)
			if !strings.HasPrefix(so, "(Array Int ") {
				g.fail("ghost at: %s is not a ghost map", gv.Name)
			}
			k := g.trans(ga.Lhs.Args[1], e2)
			g.cur[n] = g.define("H_"+n, g.comps[n], fmt.Sprintf("(store %s %s %s)", g.heapGet(n), k.t, rhs.t))
		default:
			g.fail("ghost at: bad left-hand side %s", ga.Lhs)
		}
	}
}

// ghost components written by `ghost at` clauses of the function (havoc'd at every loop head)
func (g *Gen) ghostAtComps() []string {
	var out []string
	c := g.fr.c
	if c == nil {
		return nil
	}
	for _, ga := range c.GhostAts {
		name := ga.Lhs.Val
		if ga.Lhs.Op == "idx" {
			name = ga.Lhs.Args[0].Val
		}
		if gv, ok := g.w.DB.Ghosts[name]; ok {
			n, _, _ := g.ghostComp(gv)
			out = append(out, n)
		}
	}
	return out
}
