// Loading /repo, building SSA, indexing functions.
package main

import (
	"fmt"
	"go/types"
	"os"
	"sort"
	"strings"
	"time"

	"golang.org/x/tools/go/packages"
	"golang.org/x/tools/go/ssa"
	"golang.org/x/tools/go/ssa/ssautil"
)

type World struct {
	Pkgs    []*packages.Package
	Prog    *ssa.Program
	Funcs   map[string]*ssa.Function
	DB      *ContractDB
	ByPath  map[string]*packages.Package
	LoadDur time.Duration
	globalFacts map[string]GlobalFact
	short   map[string]string // pkg path -> unique short name
	shortR  map[string]string
}

func repoDir() string {
	if d := os.Getenv("VERIF_REPO"); d != "" {
		return d
	}
	return "/repo"
}

func loadWorld(patterns []string, overlay map[string][]byte) (*World, error) {
	t0 := time.Now()
	cfg := &packages.Config{
		Mode:       packages.LoadSyntax,
		Dir:        repoDir(),
		BuildFlags: []string{"-tags=verif"},
		Overlay:    overlay,
		Env:        append(os.Environ(), "GOFLAGS=-mod=mod", "GOPROXY=off", "GOSUMDB=off", "GOTOOLCHAIN=local"),
	}
	pkgs, err := packages.Load(cfg, patterns...)
	if err != nil {
		return nil, err
	}
	var errs []string
	packages.Visit(pkgs, nil, func(p *packages.Package) {
		for _, e := range p.Errors {
			if strings.Contains(p.PkgPath, "ontio/ontology") {
				errs = append(errs, e.Error())
			}
		}
	})
	if len(errs) > 0 {
		return nil, fmt.Errorf("package errors:\n%s", strings.Join(errs, "\n"))
	}
	prog, _ := ssautil.Packages(pkgs, ssa.InstantiateGenerics|ssa.GlobalDebug)
	prog.Build()
	w := &World{Pkgs: pkgs, Prog: prog, Funcs: map[string]*ssa.Function{}, ByPath: map[string]*packages.Package{}, short: map[string]string{}, shortR: map[string]string{}}
	for f := range ssautil.AllFunctions(prog) {
		w.Funcs[funcKey(f)] = f
	}
	packages.Visit(pkgs, nil, func(p *packages.Package) { w.ByPath[p.PkgPath] = p })
	w.DB = loadContracts(pkgs)
	w.LoadDur = time.Since(t0)
	return w, nil
}

// funcKey: canonical name, e.g. "github.com/x/y.F", "(*github.com/x/y.T).M", "github.com/x/y.F$1".
func funcKey(f *ssa.Function) string {
	if f == nil {
		return ""
	}
	return f.RelString(nil)
}

func (w *World) pkgShort(p *types.Package) string {
	if p == nil {
		return ""
	}
	if s, ok := w.short[p.Path()]; ok {
		return s
	}
	s := p.Name()
	if other, ok := w.shortR[s]; ok && other != p.Path() {
		parts := strings.Split(p.Path(), "/")
		if len(parts) >= 2 {
			s = parts[len(parts)-2] + "_" + parts[len(parts)-1]
		}
		s = strings.NewReplacer("-", "_", ".", "_").Replace(s)
		for i := 2; ; i++ {
			if o, ok := w.shortR[s]; !ok || o == p.Path() {
				break
			}
			s = fmt.Sprintf("%s%d", s, i)
		}
	}
	w.short[p.Path()] = s
	w.shortR[s] = p.Path()
	return s
}

func (w *World) typeName(t types.Type) string {
	switch u := t.(type) {
	case *types.Named:
		n := u.Obj().Name()
		if u.Obj().Pkg() != nil {
			n = w.pkgShort(u.Obj().Pkg()) + "_" + n
		}
		if ta := u.TypeArgs(); ta != nil {
			for i := 0; i < ta.Len(); i++ {
				n += "_" + w.typeName(ta.At(i))
			}
		}
		return n
	case *types.Alias:
		return w.typeName(types.Unalias(u))
	case *types.Pointer:
		return "P" + w.typeName(u.Elem())
	case *types.Slice:
		return "Sl" + w.typeName(u.Elem())
	case *types.Array:
		return fmt.Sprintf("A%d%s", u.Len(), w.typeName(u.Elem()))
	case *types.Basic:
		// byte/uint8 and rune/int32 are the same type and must share one memory component
		switch u.Kind() {
		case types.Uint8:
			return "uint8"
		case types.Int32:
			return "int32"
		}
		return u.Name()
	case *types.Map:
		return "Map_" + w.typeName(u.Key()) + "_" + w.typeName(u.Elem())
	case *types.Struct:
		var fs []string
		for i := 0; i < u.NumFields(); i++ {
			fs = append(fs, u.Field(i).Name()+"_"+w.typeName(u.Field(i).Type()))
		}
		return "anon_" + strings.Join(fs, "_")
	case *types.Interface:
		return "iface"
	case *types.Signature:
		return "func"
	case *types.Chan:
		return "chan"
	case *types.Tuple:
		return "tuple"
	}
	return "T"
}

func sortedKeys(m map[string]string) []string {
	var ks []string
	for k := range m {
		ks = append(ks, k)
	}
	sort.Strings(ks)
	return ks
}
