// Map model: per map type K->V three components indexed by map reference:
//   MpV_<K>_<V> : Array Int (Array K' V')   values
//   MpIn_<K>_<V>: Array Int (Array K' Bool) domain
//   MpLen_<K>_<V>: Array Int Idx            number of keys (kept consistent with the domain by the update rules)
// Iteration order is arbitrary: `range` over a map yields keys through an uninterpreted enumeration.
package main

import (
	"fmt"
	"go/types"

	"golang.org/x/tools/go/ssa"
)

// String keys are compared by CONTENT in Go. Strings are immutable, so the content is a function of
// the string value; map keys of string type are abstracted by an uninterpreted strkey(value): equal
// values give equal keys, and nothing is assumed about different values (they may well be equal keys).
func (g *Gen) mapKeySort(mt *types.Map) string {
	if isString(mt.Key()) {
		return "Int"
	}
	return g.sortOf(mt.Key())
}

func (g *Gen) mapKey(k string, mt *types.Map) string {
	if isString(mt.Key()) {
		if !g.funDecl["strkey"] {
			g.funDecl["strkey"] = true
			g.prel = append(g.prel, "(declare-fun strkey (Slice) Int)")
		}
		return "(strkey " + k + ")"
	}
	return k
}

func (g *Gen) mapCompNames(t types.Type) (v, in, ln string) {
	mt := t.Underlying().(*types.Map)
	suf := g.w.typeName(mt.Key()) + "_" + g.w.typeName(mt.Elem())
	ks := g.mapKeySort(mt)
	v, in, ln = "MpV_"+suf, "MpIn_"+suf, "MpLen_"+suf
	g.comp(v, fmt.Sprintf("(Array Int (Array %s %s))", ks, g.sortOf(mt.Elem())))
	g.comp(in, fmt.Sprintf("(Array Int (Array %s Bool))", ks))
	g.comp(ln, fmt.Sprintf("(Array Int %s)", g.idxSort()))
	if isRefType(mt.Elem()) && g.sortOf(mt.Elem()) == "Int" {
		// map values that are references: like pointer-valued memories, what a loop-head heap holds there
		// denotes objects that existed before the head was reached
		g.refComps[v] = "mapval:" + ks
	}
	return
}

func (g *Gen) mapComps(t types.Type) []string {
	if _, ok := t.Underlying().(*types.Map); !ok {
		return nil
	}
	v, in, ln := g.mapCompNames(t)
	return []string{v, in, ln}
}

// len(m) is never negative in a real execution; stating it only prunes states no execution reaches.
func (g *Gen) mapLen(m string, t types.Type) string {
	_, _, ln := g.mapCompNames(t)
	r := fmt.Sprintf("(select %s %s)", g.heapGet(ln), m)
	g.assumeAlways(fmt.Sprintf("(and %s %s)", g.le(g.idx(0), r, true), g.lt(r, g.idx(281474976710656), true))) // 0 <= len < 2^48 (memory bound)
	return r
}

func (g *Gen) mapLenIn(m string, t types.Type, env *TEnv) string {
	_, _, ln := g.mapCompNames(t)
	r := fmt.Sprintf("(select %s %s)", env.heap(ln), m)
	g.assumeAlways(fmt.Sprintf("(and %s %s)", g.le(g.idx(0), r, true), g.lt(r, g.idx(281474976710656), true))) // 0 <= len < 2^48 (memory bound)
	return r
}

func (g *Gen) makeMap(x *ssa.MakeMap) {
	g.nfresh++
	r := g.newRefNumeral()
	v, in, ln := g.mapCompNames(x.Type())
	mt := x.Type().Underlying().(*types.Map)
	ks := g.mapKeySort(mt)
	g.setComp(in, fmt.Sprintf("(store %s %s ((as const (Array %s Bool)) false))", g.heapGet(in), r, ks))
	g.setComp(ln, fmt.Sprintf("(store %s %s %s)", g.heapGet(ln), r, g.idx(0)))
	_ = v
	g.fr.val[x] = r
}

func (g *Gen) mapUpdate(x *ssa.MapUpdate) {
	g.mapUpdateAnchor(x)
	m := g.term(x.Map)
	k := g.mapKey(g.term(x.Key), x.Map.Type().Underlying().(*types.Map))
	val := g.term(x.Value)
	v, in, ln := g.mapCompNames(x.Map.Type())
	g.safety("nilmap", fmt.Sprintf("(not (= %s 0))", m), "assignment to entry in nil map")
	hv, hin, hln := g.heapGet(v), g.heapGet(in), g.heapGet(ln)
	present := fmt.Sprintf("(select (select %s %s) %s)", hin, m, k)
	g.setComp(ln, fmt.Sprintf("(store %s %s (ite %s (select %s %s) %s))", hln, m, present, hln, m, g.addIdx(fmt.Sprintf("(select %s %s)", hln, m), g.idx(1))))
	g.setComp(v, fmt.Sprintf("(store %s %s (store (select %s %s) %s %s))", hv, m, hv, m, k, val))
	g.setComp(in, fmt.Sprintf("(store %s %s (store (select %s %s) %s true))", hin, m, hin, m, k))
}

func (g *Gen) mapDelete(cc *ssa.CallCommon) {
	m := g.term(cc.Args[0])
	k := g.mapKey(g.term(cc.Args[1]), cc.Args[0].Type().Underlying().(*types.Map))
	_, in, ln := g.mapCompNames(cc.Args[0].Type())
	hin, hln := g.heapGet(in), g.heapGet(ln)
	present := fmt.Sprintf("(and (not (= %s 0)) (select (select %s %s) %s))", m, hin, m, k)
	g.setComp(ln, fmt.Sprintf("(store %s %s (ite %s %s (select %s %s)))", hln, m, present, g.subIdx(fmt.Sprintf("(select %s %s)", hln, m), g.idx(1)), hln, m))
	g.setComp(in, fmt.Sprintf("(ite (= %s 0) %s (store %s %s (store (select %s %s) %s false)))", m, hin, hin, m, hin, m, k))
}

func (g *Gen) lookup(x *ssa.Lookup) {
	fr := g.fr
	mt, ok := x.X.Type().Underlying().(*types.Map)
	if !ok {
		// string index
		a := g.term(x.X)
		i := g.toIdx(x.Index)
		g.safety("index", fmt.Sprintf("(and %s %s)", g.le(g.idx(0), i, true), g.lt(i, "(len "+a+")", true)), "string index in range")
		c, _ := g.memComp(types.Typ[types.Uint8])
		fr.val[x] = g.define(x.Name(), g.sortOf(x.Type()), fmt.Sprintf("(select (select %s (base %s)) %s)", g.heapGet(c), a, g.elemIdx("(off "+a+")", i)))
		return
	}
	m := g.term(x.X)
	k := g.mapKey(g.term(x.Index), mt)
	v, in, _ := g.mapCompNames(x.X.Type())
	present := g.define("mp_ok", "Bool", fmt.Sprintf("(and (not (= %s 0)) (select (select %s %s) %s))", m, g.heapGet(in), m, k))
	// a map that contains a key has at least one element (true of every real execution)
	{
		_, _, ln := g.mapCompNames(x.X.Type())
		g.assumeAlways(fmt.Sprintf("(=> %s %s)", present, g.le(g.idx(1), fmt.Sprintf("(select %s %s)", g.heapGet(ln), m), true)))
	}
	val := g.define("mp_val", g.sortOf(mt.Elem()), fmt.Sprintf("(ite %s (select (select %s %s) %s) %s)", present, g.heapGet(v), m, k, g.zeroValue(mt.Elem())))
	old := g.pristine[g.heapGet(v)]
	if c := g.typeInv(val, mt.Elem(), old); c != "true" {
		g.assumeAlways(c)
	}
	if x.CommaOk {
		fr.tuple[x] = []string{val, present}
	} else {
		fr.val[x] = val
	}
}

func (g *Gen) mapGetTv(m tvT, k tvT, env *TEnv) tvT {
	mt := m.gt.Underlying().(*types.Map)
	v, in, _ := g.mapCompNames(m.gt)
	kt := k.t
	if g.bv && k.lit != nil {
		kt = g.numBig(k.lit, mt.Key())
	}
	kt = g.mapKey(kt, mt)
	present := fmt.Sprintf("(and (not (= %s 0)) (select (select %s %s) %s))", m.t, env.heap(in), m.t, kt)
	return tvT{t: fmt.Sprintf("(ite %s (select (select %s %s) %s) %s)", present, env.heap(v), m.t, kt, g.zeroValue(mt.Elem())), gt: mt.Elem()}
}

// range over map / string: modelled as an arbitrary enumeration. The iterator value is an
// opaque reference; each Next yields (ok, key, value) with ok unconstrained except that a
// yielded key is in the map's domain at that time (maps) -- sound for any iteration order.
func (g *Gen) rangeStart(x *ssa.Range) {
	g.fr.val[x] = g.fresh("rangeit", "Int")
	g.fr.lv[x] = &lval{kind: "range", ref: g.term(x.X), typ: x.X.Type()}
	mt, ok := x.X.Type().Underlying().(*types.Map)
	if !ok || g.fr.inl {
		return
	}
	// ghost: the set of keys this iteration has produced so far (seenN(k) in contracts, N = ordinal of the
	// range statement among the function's map iterations), and the key set when it began
	ord := 0
	for _, b := range x.Parent().Blocks {
		for _, in := range b.Instrs {
			if r, ok := in.(*ssa.Range); ok {
				if _, isMap := r.X.Type().Underlying().(*types.Map); isMap {
					ord++
					if r == x {
						goto found
					}
				}
			}
		}
	}
found:
	ks := g.mapKeySort(mt)
	name := fmt.Sprintf("L_seen%d", ord)
	g.comp(name, fmt.Sprintf("(Array %s Bool)", ks))
	g.cur[name] = g.define("H_"+name, g.comps[name], fmt.Sprintf("((as const (Array %s Bool)) false)", ks))
	if g.fr.rangeSeen == nil {
		g.fr.rangeSeen = map[*ssa.Range]string{}
		g.fr.rangeDom = map[*ssa.Range]string{}
	}
	g.fr.rangeSeen[x] = name
	_, in, _ := g.mapCompNames(x.X.Type())
	g.fr.rangeDom[x] = g.define("range_dom", fmt.Sprintf("(Array %s Bool)", ks), fmt.Sprintf("(select %s %s)", g.heapGet(in), g.term(x.X)))
}

func (g *Gen) rangeNext(x *ssa.Next) {
	fr := g.fr
	it := fr.lv[x.Iter]
	tup := x.Type().(*types.Tuple)
	ok := g.fresh("next_ok", "Bool")
	if x.IsString || it == nil {
		k := g.fresh("next_k", g.sortOf(tup.At(1).Type()))
		v := g.fresh("next_v", g.sortOf(tup.At(2).Type()))
		fr.tuple[x] = []string{ok, k, v}
		return
	}
	mt := it.typ.Underlying().(*types.Map)
	m := it.ref
	vc, in, ln := g.mapCompNames(it.typ)
	k := g.fresh("next_k", g.sortOf(mt.Key()))
	if c := g.typeInv(k, mt.Key(), false); c != "true" {
		g.assumeAlways(c)
	}
	kv := k // the key value handed to the program
	k = g.mapKey(k, mt)
	v := g.define("next_v", g.sortOf(mt.Elem()), fmt.Sprintf("(select (select %s %s) %s)", g.heapGet(vc), m, k))
	if c := g.typeInv(v, mt.Elem(), g.pristine[g.heapGet(vc)]); c != "true" {
		g.assumeAlways(c)
	}
	g.assumeAlways(fmt.Sprintf("(=> %s (and (not (= %s 0)) (select (select %s %s) %s) %s))", ok, m, g.heapGet(in), m, k, g.lt(g.idx(0), fmt.Sprintf("(select %s %s)", g.heapGet(ln), m), true)))
	if rg, isRange := x.Iter.(*ssa.Range); isRange {
		if name, have := fr.rangeSeen[rg]; have {
			// Go's iteration produces each key at most once, and -- when the map's key set is the one it had
			// when the iteration began (nothing was added or removed) -- stops only after producing every key
			seen := g.heapGet(name)
			dom0 := fr.rangeDom[rg]
			g.assumeAlways(fmt.Sprintf("(=> %s (not (select %s %s)))", ok, seen, k))
			g.assumeAlways(fmt.Sprintf("(=> (and (not %s) (not (= %s 0)) (= (select %s %s) %s)) (forall ((q_k %s)) (! (=> (select %s q_k) (select %s q_k)) :pattern ((select %s q_k)))))", ok, m, g.heapGet(in), m, dom0, g.mapKeySort(mt), dom0, seen, dom0))
			g.setComp(name, fmt.Sprintf("(ite %s (store %s %s true) %s)", ok, seen, k, seen))
		}
	}
	// an empty or nil map yields nothing
	g.assumeAlways(fmt.Sprintf("(=> (or (= %s 0) (= (select %s %s) %s)) (not %s))", m, g.heapGet(ln), m, g.idx(0), ok))
	fr.tuple[x] = []string{ok, kv, v}
}
