// Instantiation patterns for quantifiers written in contracts.
//
// Left to itself the solver may pick a pattern that contains index arithmetic, e.g. (+ (off s) q).
// E-matching works modulo the equalities of the current candidate model, so such a pattern matches
// the index terms of UNRELATED slices whenever the model happens to equate their offsets; if the body
// then mentions G[q] for a ghost map G, every instance creates a new index term (+ (off t) G[q]) and
// the quantifier feeds itself (observed: 160 000 instances, generation 10, timeout on a goal that is
// decided in 0.08 s without the hypothesis). When every bound variable occurs as the DIRECT argument
// of a select / uninterpreted function application, those applications are given as the pattern and
// the loop cannot start. Otherwise no pattern is written and the solver chooses.
//
// A pattern only restricts instantiation of a hypothesis: it can turn a provable goal into "unknown",
// never an unprovable one into "proved".
package main

import (
	"sync"
	"sort"
	"strings"
)

type sx struct {
	atom string
	kids []*sx
}

func parseSx(s string) *sx {
	pos := 0
	var rec func() *sx
	rec = func() *sx {
		for pos < len(s) && (s[pos] == ' ' || s[pos] == '\n' || s[pos] == '\t') {
			pos++
		}
		if pos >= len(s) {
			return nil
		}
		if s[pos] == '(' {
			pos++
			n := &sx{}
			for {
				for pos < len(s) && (s[pos] == ' ' || s[pos] == '\n' || s[pos] == '\t') {
					pos++
				}
				if pos >= len(s) {
					return n
				}
				if s[pos] == ')' {
					pos++
					return n
				}
				k := rec()
				if k == nil {
					return n
				}
				n.kids = append(n.kids, k)
			}
		}
		st := pos
		if s[pos] == '|' {
			pos++
			for pos < len(s) && s[pos] != '|' {
				pos++
			}
			pos++
			return &sx{atom: s[st:pos]}
		}
		if s[pos] == '"' {
			pos++
			for pos < len(s) && s[pos] != '"' {
				pos++
			}
			pos++
			return &sx{atom: s[st:pos]}
		}
		for pos < len(s) && s[pos] != ' ' && s[pos] != '(' && s[pos] != ')' && s[pos] != '\n' && s[pos] != '\t' {
			pos++
		}
		return &sx{atom: s[st:pos]}
	}
	return rec()
}

func (n *sx) str() string {
	if n.kids == nil && n.atom != "" {
		return n.atom
	}
	var ps []string
	for _, k := range n.kids {
		ps = append(ps, k.str())
	}
	return "(" + strings.Join(ps, " ") + ")"
}

func (n *sx) mentions(vars map[string]bool) bool {
	if n.kids == nil {
		return vars[n.atom]
	}
	for _, k := range n.kids {
		if k.mentions(vars) {
			return true
		}
	}
	return false
}

// spec functions emitted as (define-fun ...): the solver expands them, so they cannot occur in a pattern
var definedHead = map[string]bool{}
var definedHeadMu sync.Mutex

func isDefinedHead(a string) bool {
	definedHeadMu.Lock()
	defer definedHeadMu.Unlock()
	return definedHead[a]
}

// interpreted heads never usable as the head of a pattern
var interpHead = map[string]bool{
	"and": true, "or": true, "not": true, "=>": true, "=": true, "ite": true, "distinct": true, "xor": true,
	"+": true, "-": true, "*": true, "div": true, "mod": true, "abs": true, "<": true, "<=": true, ">": true, ">=": true,
	"store": true, "let": true, "forall": true, "exists": true, "!": true, "as": true, "_": true,
	"tdiv": true, "trem": true, "to_int": true, "to_real": true,
}

// choosePattern returns a (multi-)pattern "t1 t2 ..." covering all bound variables with applications
// in which a bound variable is a direct argument and no arithmetic occurs, or "" when there is none.
func choosePattern(body string, bound []string) string {
	if strings.Contains(body, "(let ") || len(body) > 20000 {
		return ""
	}
	root := parseSx(body)
	if root == nil {
		return ""
	}
	bv := map[string]bool{}
	for _, b := range bound {
		bv[b] = true
	}
	cands := map[string][]string{} // bound var -> candidate terms
	var pure func(n *sx) bool         // no interpreted operator anywhere inside, no nested quantifier
	pure = func(n *sx) bool {
		if n.kids == nil {
			return true
		}
		if len(n.kids) == 0 {
			return false
		}
		h := n.kids[0]
		if h.kids != nil { // ((_ extract ..) x), ((as const ..) v): interpreted
			return false
		}
		if interpHead[h.atom] || strings.HasPrefix(h.atom, "bv") || isDefinedHead(h.atom) {
			return false
		}
		for _, k := range n.kids[1:] {
			if !pure(k) {
				return false
			}
		}
		return true
	}
	var walk func(n *sx, underQuant bool)
	walk = func(n *sx, underQuant bool) {
		if n.kids == nil || len(n.kids) == 0 {
			return
		}
		h := n.kids[0]
		if h.kids == nil && (h.atom == "forall" || h.atom == "exists") {
			return // inner quantifier: its variables are not ours; keep out
		}
		if h.kids == nil && !interpHead[h.atom] && !isDefinedHead(h.atom) && pure(n) {
			for _, k := range n.kids[1:] {
				if k.kids == nil && bv[k.atom] {
					cands[k.atom] = append(cands[k.atom], n.str())
				}
			}
		}
		for _, k := range n.kids {
			walk(k, underQuant)
		}
	}
	walk(root, false)
	if len(bound) == 1 {
		// one bound variable: every (distinct) candidate is offered as an alternative pattern, shortest
		// first -- which of the terms the goal happens to contain depends on the caller
		cs := cands[bound[0]]
		if len(cs) == 0 {
			return ""
		}
		sort.SliceStable(cs, func(i, j int) bool { return len(cs[i]) < len(cs[j]) })
		var alts []string
		dup := map[string]bool{}
		for _, c := range cs {
			if !dup[c] && len(alts) < 4 {
				dup[c] = true
				alts = append(alts, c)
			}
		}
		return strings.Join(alts, ") :pattern (")
	}
	var pats []string
	seen := map[string]bool{}
	for _, b := range bound {
		cs := cands[b]
		if len(cs) == 0 {
			return ""
		}
		sort.SliceStable(cs, func(i, j int) bool { return len(cs[i]) < len(cs[j]) })
		// a term already chosen that also mentions b covers it
		covered := false
		for _, p := range pats {
			if parseSx(p).mentions(map[string]bool{b: true}) {
				covered = true
			}
		}
		if covered {
			continue
		}
		if !seen[cs[0]] {
			seen[cs[0]] = true
			pats = append(pats, cs[0])
		}
	}
	return strings.Join(pats, " ")
}
