// Values of package-level variables after package initialisation, obtained by RUNNING the real
// initialisers: an in-package test injected through `go test -overlay` prints them as JSON.
package main

import (
	"crypto/sha256"
	"encoding/json"
	"fmt"
	"os"
	"os/exec"
	"path/filepath"
	"sort"
	"strings"
)

type evalReq struct {
	imports map[string]string // name -> path (imports of the package under evaluation)
	pkgPath string
	dir     string
	pkgName string
	globals []string          // names
	consts  map[string]string // name -> Go expression
}

func verifRoot() string {
	if d := os.Getenv("VERIF_ROOT"); d != "" {
		return d
	}
	return "/verif"
}

func goEnv() []string {
	return append(os.Environ(), "GOFLAGS=-mod=mod", "GOPROXY=off", "GOSUMDB=off", "GOTOOLCHAIN=local")
}

func (w *World) evalGlobals() error {
	w.globalFacts = map[string]GlobalFact{}
	reqs := map[string]*evalReq{}
	get := func(pkgPath string) *evalReq {
		r := reqs[pkgPath]
		if r == nil {
			p := w.ByPath[pkgPath]
			dir := ""
			if p != nil && len(p.GoFiles) > 0 {
				dir = filepath.Dir(p.GoFiles[0])
			}
			r = &evalReq{pkgPath: pkgPath, dir: dir, pkgName: p.Name, consts: map[string]string{}, imports: map[string]string{}}
			for path, ip := range p.Imports {
				r.imports[ip.Name] = path
			}
			reqs[pkgPath] = r
		}
		return r
	}
	for _, gd := range w.DB.GlobalDecls {
		r := get(gd.Pkg.PkgPath)
		r.globals = append(r.globals, gd.Name)
	}
	for _, ec := range w.DB.EvalConsts {
		r := get(ec.Pkg.PkgPath)
		r.consts[ec.Name] = ec.Val
	}
	var keys []string
	for k := range reqs {
		keys = append(keys, k)
	}
	sort.Strings(keys)
	for _, k := range keys {
		r := reqs[k]
		vals, err := runEval(r)
		if err != nil {
			return fmt.Errorf("eval in %s: %v", k, err)
		}
		for _, n := range r.globals {
			raw, ok := vals["g:"+n]
			if !ok {
				return fmt.Errorf("eval: no value for %s.%s", k, n)
			}
			gf := GlobalFact{Pkg: k, Name: n}
			switch v := raw.(type) {
			case json.Number:
				gf.Scalar = v.String()
			case []interface{}:
				for _, e := range v {
					if num, ok := e.(json.Number); ok {
						gf.Elems = append(gf.Elems, num.String())
					}
				}
			case bool:
				continue
			default:
				continue
			}
			w.globalFacts[k+"."+n] = gf
		}
		for n := range r.consts {
			raw, ok := vals["c:"+n]
			if !ok {
				return fmt.Errorf("eval: no value for const %s", n)
			}
			if num, ok := raw.(json.Number); ok {
				w.DB.Consts[n] = &ConstDef{Name: n, Val: num.String(), Pkg: w.ByPath[k]}
			}
		}
	}
	return nil
}

func runEval(r *evalReq) (map[string]interface{}, error) {
	var sb strings.Builder
	extra := ""
	{
		var names []string
		for n := range r.imports {
			names = append(names, n)
		}
		sort.Strings(names)
		for _, n := range names {
			used := false
			for _, e := range r.consts {
				if strings.Contains(e, n+".") {
					used = true
				}
			}
			if used && n != "json" && n != "fmt" && n != "testing" {
				extra += fmt.Sprintf("\t%s %q\n", n, r.imports[n])
			}
		}
	}
	fmt.Fprintf(&sb, "package %s\n\nimport (\n\t\"encoding/json\"\n\t\"fmt\"\n\t\"testing\"\n%s)\n\nfunc TestZZVerifEval(t *testing.T) {\n\tout := map[string]interface{}{}\n", r.pkgName, extra)
	sort.Strings(r.globals)
	for _, n := range r.globals {
		fmt.Fprintf(&sb, "\tout[%q] = %s\n", "g:"+n, n)
	}
	var cn []string
	for n := range r.consts {
		cn = append(cn, n)
	}
	sort.Strings(cn)
	for _, n := range cn {
		fmt.Fprintf(&sb, "\tout[%q] = %s\n", "c:"+n, r.consts[n])
	}
	sb.WriteString("\tb, _ := json.Marshal(out)\n\tfmt.Println(\"VERIFEVAL:\" + string(b))\n}\n")
	src := sb.String()
	// cache key: test source + contents of the package's non-test go files
	h := sha256.New()
	h.Write([]byte(src))
	files, _ := filepath.Glob(filepath.Join(r.dir, "*.go"))
	sort.Strings(files)
	for _, f := range files {
		b, _ := os.ReadFile(f)
		h.Write([]byte(f))
		h.Write(b)
	}
	// dependencies may matter too (constants package): include go files of sibling imports cheaply by hashing common/constants
	if b, err := os.ReadFile(filepath.Join(repoDir(), "common/constants/constants.go")); err == nil {
		h.Write(b)
	}
	key := fmt.Sprintf("%x", h.Sum(nil))[:24]
	cacheDir := filepath.Join(verifRoot(), "out", "evalcache")
	os.MkdirAll(cacheDir, 0755)
	cacheFile := filepath.Join(cacheDir, key+".json")
	var line string
	if b, err := os.ReadFile(cacheFile); err == nil && os.Getenv("VERIF_NOCACHE") == "" {
		line = string(b)
	} else {
		tmp, err := os.MkdirTemp("", "govc-eval")
		if err != nil {
			return nil, err
		}
		defer os.RemoveAll(tmp)
		tf := filepath.Join(tmp, "zz_verif_eval_test.go")
		os.WriteFile(tf, []byte(src), 0644)
		ov := map[string]map[string]string{"Replace": {filepath.Join(r.dir, "zz_verif_eval_test.go"): tf}}
		ob, _ := json.Marshal(ov)
		of := filepath.Join(tmp, "overlay.json")
		os.WriteFile(of, ob, 0644)
		cmd := exec.Command("go", "test", "-tags", "verif", "-overlay", of, "-vet=off", "-count=1", "-v", "-timeout", "120s", "-run", "^TestZZVerifEval$", ".")
		cmd.Dir = r.dir
		cmd.Env = goEnv()
		out, err := cmd.CombinedOutput()
		for _, l := range strings.Split(string(out), "\n") {
			if strings.HasPrefix(l, "VERIFEVAL:") {
				line = strings.TrimPrefix(l, "VERIFEVAL:")
			}
		}
		if line == "" {
			return nil, fmt.Errorf("eval test produced no output (%v): %s", err, firstLines(string(out), 12))
		}
		os.WriteFile(cacheFile, []byte(line), 0644)
	}
	dec := json.NewDecoder(strings.NewReader(line))
	dec.UseNumber()
	vals := map[string]interface{}{}
	if err := dec.Decode(&vals); err != nil {
		return nil, err
	}
	return vals, nil
}
