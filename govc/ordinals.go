// Source-order ordinals for anchors: "call f#k" is the k-th call of f in SOURCE order (by position),
// "def x#k" the k-th definition/assignment of source variable x in source order.
package main

import (
	"go/ast"
	"go/token"
	"go/types"
	"sort"

	"golang.org/x/tools/go/packages"
	"golang.org/x/tools/go/ssa"
)

func staticCallKey(cc *ssa.CallCommon) string {
	if callee := cc.StaticCallee(); callee != nil {
		return shortFn(funcKey(callee))
	}
	if cc.IsInvoke() {
		return "(" + shortFn(types.TypeString(cc.Value.Type(), nil)) + ")." + cc.Method.Name()
	}
	return "<dynamic>"
}

// ordinal of a call site among the calls with the same (last) name in the function, by source position
func (fr *frame) callOrdinal(cc *ssa.CallCommon, key string) int {
	if fr.callPosOrd == nil {
		fr.callPosOrd = map[token.Pos]int{}
		byName := map[string][]token.Pos{}
		for _, b := range fr.fn.Blocks {
			for _, in := range b.Instrs {
				if ci, ok := in.(ssa.CallInstruction); ok {
					if _, isB := ci.Common().Value.(*ssa.Builtin); isB {
						continue
					}
					n := lastName(staticCallKey(ci.Common()))
					byName[n] = append(byName[n], ci.Common().Pos())
				}
			}
		}
		for _, ps := range byName {
			sort.Slice(ps, func(i, j int) bool { return ps[i] < ps[j] })
			k := 0
			var last token.Pos = -1
			for _, p := range ps {
				if p != last {
					k++
					last = p
				}
				fr.callPosOrd[p] = k
			}
		}
	}
	if k, ok := fr.callPosOrd[cc.Pos()]; ok && lastName(staticCallKey(cc)) == lastName(key) {
		return k
	}
	fr.callOrd[key]++
	return 1000 + fr.callOrd[key]
}

// ordinal of an assignment target occurrence among the assignments to the same name, by position
func (g *Gen) defOrdinal(fr *frame, id *ast.Ident) int {
	if !g.isAssignTarget(fr, id) {
		return 0
	}
	if fr.defPosOrd == nil {
		fr.defPosOrd = map[token.Pos]int{}
		byName := map[string][]token.Pos{}
		if syn := fr.fn.Syntax(); syn != nil {
			ast.Inspect(syn, func(n ast.Node) bool {
				if i, ok := n.(*ast.Ident); ok && fr.assignPos[i.Pos()] {
					byName[i.Name] = append(byName[i.Name], i.Pos())
				}
				return true
			})
		}
		for _, ps := range byName {
			sort.Slice(ps, func(i, j int) bool { return ps[i] < ps[j] })
			for k, p := range ps {
				fr.defPosOrd[p] = k + 1
			}
		}
	}
	return fr.defPosOrd[id.Pos()]
}

// OnAlloc: ghost initialisation of freshly allocated objects (e.g. new(big.Int) has value 0)
type OnAlloc struct {
	Type  string
	Ghost string
	Val   *Expr
	Pkg   *packages.Package
}

// importByName resolves a package qualifier used in a contract of package pkg: first the import
// aliases of that package's contract files (zz_verif_*.go), then the package names of its imports.
func (w *World) importByName(pkg *packages.Package, name string) *packages.Package {
	if pkg == nil {
		return nil
	}
	if m := w.DB.FileImports[pkg.PkgPath]; m != nil {
		if path, ok := m[name]; ok {
			if ip := pkg.Imports[path]; ip != nil {
				return ip
			}
		}
	}
	var found *packages.Package
	for _, imp := range pkg.Imports {
		if imp.Name == name || (imp.Types != nil && imp.Types.Name() == name) {
			if found != nil && found != imp {
				return nil // ambiguous: two imports share the package name; use an alias in the contract file
			}
			found = imp
		}
	}
	return found
}
