// Replay of counterexamples against the real code.
//
// For a failed obligation with a model, the model's inputs are fed to the REAL function through an
// in-package test injected with `go test -overlay` (nothing is written to /repo). The run either
// panics (a violation for every function under a safety claim) or returns outputs; the exported
// postconditions of the function are then evaluated on (model inputs, real outputs) by the SMT
// solver. Only a replay that reproduces a violation counts as a failing input.
package main

import (
	"encoding/json"
	"fmt"
	"go/types"
	"math/big"
	"os"
	"os/exec"
	"path/filepath"
	"sort"
	"strings"
)

type replayInput struct {
	expr string // Go l-value expression (also a contract expression)
	term string
	typ  types.Type
}

type replayInfo struct {
	entryCtx  int
	ensures   []string
	extraDefs []string
	resConsts []string
	resTypes  []types.Type
	inputs    []replayInput
	observes  []replayInput
	heapDep   bool
	why       string
}

func (g *Gen) prepareReplay() {
	fn, c := g.top, g.topC
	if fn == nil || c == nil {
		return
	}
	ri := &replayInfo{}
	g.replay = ri
	nd := len(g.defs)
	defer func() {
		if r := recover(); r != nil {
			if te, ok := r.(transErr); ok {
				ri.why = "replay preparation failed: " + te.msg
				g.defs = g.defs[:nd]
				return
			}
			panic(r)
		}
	}()
	for _, l := range c.Replay {
		if strings.HasPrefix(l, "input ") {
			ex := strings.TrimSpace(strings.TrimPrefix(l, "input "))
			e, err := ParseExpr(ex)
			if err != nil {
				ri.why = "bad replay input: " + err.Error()
				continue
			}
			env := g.contractEnv()
			env.oldEntry = true
			v := g.trans(e, env)
			ri.inputs = append(ri.inputs, replayInput{expr: ex, term: v.t, typ: v.gt})
		}
	}
	ri.entryCtx = len(g.defs)
	// result constants and exported ensures over them
	rs := fn.Signature.Results()
	for i := 0; i < rs.Len(); i++ {
		t := rs.At(i).Type()
		rc := g.fresh(fmt.Sprintf("replay_r%d", i), g.sortOf(t))
		ri.resConsts = append(ri.resConsts, rc)
		ri.resTypes = append(ri.resTypes, t)
	}
	// post-state: the locations in `assigns` get fresh contents (as at a call site); `replay observe`
	// clauses pin them to what the real run leaves there
	saveCur := g.cur
	g.cur = copyMap(g.cur)
	penv := g.contractEnv()
	penv.oldEntry, penv.inOld = true, true
	nAssign := 0
	if !c.AssignsAll {
		for _, tg := range g.assignTargets(c, penv) {
			g.havocTarget(tg)
			nAssign++
		}
	}
	env := g.contractEnv()
	env.oldEntry = true
	g.bindResults(env, fn.Signature, func(i int) string { return ri.resConsts[i] })
	for _, e := range c.Ensures {
		ri.ensures = append(ri.ensures, g.transBool(e.E, env))
	}
	nObs := 0
	for _, l := range c.Replay {
		if strings.HasPrefix(l, "observe ") {
			// observe <contract expr> = <Go expr over recv / results>
			rest := strings.TrimPrefix(l, "observe ")
			i := strings.Index(rest, " = ")
			if i < 0 {
				continue
			}
			e, err := ParseExpr(rest[:i])
			if err != nil {
				continue
			}
			v := g.trans(e, env)
			ri.observes = append(ri.observes, replayInput{expr: strings.TrimSpace(rest[i+3:]), term: v.t, typ: v.gt})
			nObs++
		}
	}
	ri.heapDep = c.AssignsAll || (nAssign > 0 && nObs == 0)
	g.cur = saveCur
	ri.extraDefs = append([]string{}, g.defs[ri.entryCtx:]...)
	g.defs = g.defs[:ri.entryCtx]
}

// parse an SMT value into a big integer (interpreting bit-vectors as unsigned)
func smtInt(v string) (*big.Int, int, bool) {
	v = strings.TrimSpace(v)
	switch {
	case strings.HasPrefix(v, "#x"):
		n, ok := new(big.Int).SetString(v[2:], 16)
		return n, 4 * (len(v) - 2), ok
	case strings.HasPrefix(v, "#b"):
		n, ok := new(big.Int).SetString(v[2:], 2)
		return n, len(v) - 2, ok
	case strings.HasPrefix(v, "(_ bv"):
		f := strings.Fields(strings.Trim(v, "()"))
		if len(f) == 3 {
			n, ok := new(big.Int).SetString(strings.TrimPrefix(f[1], "bv"), 10)
			var w int
			fmt.Sscanf(f[2], "%d", &w)
			return n, w, ok
		}
	case strings.HasPrefix(v, "(-"):
		inner := strings.TrimSpace(strings.TrimSuffix(strings.TrimPrefix(v, "(-"), ")"))
		n, _, ok := smtInt(inner)
		if ok {
			return new(big.Int).Neg(n), 0, true
		}
	default:
		n, ok := new(big.Int).SetString(v, 10)
		return n, 0, ok
	}
	return nil, 0, false
}

// Go literal of integer type t for SMT value v
func goIntLit(v string, t types.Type, qual types.Qualifier) (string, bool) {
	n, w, ok := smtInt(v)
	if !ok {
		return "", false
	}
	if w > 0 && isSigned(t) && n.Bit(w-1) == 1 {
		n = new(big.Int).Sub(n, new(big.Int).Lsh(big.NewInt(1), uint(w)))
	}
	ts := types.TypeString(t, qual)
	if n.Sign() < 0 {
		return fmt.Sprintf("%s(%s)", ts, n.String()), true
	}
	return fmt.Sprintf("%s(%s)", ts, n.String()), true
}

type replayResult struct {
	Confirmed bool
	Output    string
	Model     map[string]string
	TestSrc   string
	Reason    string
}

func safetyKind(k string) bool {
	switch k {
	case "index", "slice", "nil", "divzero", "panic-unreachable", "makeslice", "typeassert", "nilmap", "shift":
		return true
	}
	return false
}

func replayOblig(w *World, id string, o *Oblig, dir string, timeout int) (string, bool) {
	rp := filepath.Join(dir, fileSafe(o.Name)+".json")
	rec := map[string]interface{}{"property": id, "obligation": o.Name, "clause": o.Desc, "status": o.Status, "solver": o.Solver,
		"smt_file": o.File, "solver_output": trunc(o.Output, 4000)}
	confirmed := false
	if o.Status == "sat" && o.gen != nil && o.gen.top != nil {
		rr := runReplay(w, o, dir, timeout)
		rec["model"] = rr.Model
		rec["replay_output"] = trunc(rr.Output, 4000)
		rec["replay_confirmed"] = rr.Confirmed
		rec["replay_note"] = rr.Reason
		if rr.TestSrc != "" {
			tf := filepath.Join(dir, fileSafe(o.Name)+"_replay_test.go.txt")
			os.WriteFile(tf, []byte(rr.TestSrc), 0644)
			rec["replay_test"] = tf
		}
		confirmed = rr.Confirmed
		if !confirmed && o.Kind != "ensures" && !safetyKind(o.Kind) {
			// The failed obligation is an internal proof step (assertion / loop invariant); its model need
			// not violate anything observable. Search for an input that violates an EXPORTED postcondition
			// of the same function, without assuming the failed step, and replay that one.
			for _, e := range o.gen.obs {
				if e.Kind != "ensures" || confirmed {
					continue
				}
				e2 := *e
				e2.NoAssumed = true
				e2.Opaque = nil
				e2.Status = ""
				e2.Name = e.Name + "-search"
				solveAll([]*Oblig{&e2}, dir, timeout, 1)
				if e2.Status != "sat" {
					continue
				}
				rr2 := runReplay(w, &e2, dir, timeout)
				if rr2.Confirmed {
					confirmed = true
					rec["replay_via"] = e.Name
					rec["model"] = rr2.Model
					rec["replay_output"] = trunc(rr2.Output, 4000)
					rec["replay_confirmed"] = true
					rec["replay_note"] = "internal proof step failed; an input violating the exported postcondition " + e.Name + " was found and reproduced: " + rr2.Reason
					if rr2.TestSrc != "" {
						tf := filepath.Join(dir, fileSafe(o.Name)+"_replay_test.go.txt")
						os.WriteFile(tf, []byte(rr2.TestSrc), 0644)
						rec["replay_test"] = tf
					}
				}
			}
		}
	} else if o.Status != "sat" {
		rec["replay_note"] = "the solver gave no model (" + o.Status + "): no failing input"
	}
	writeJSON(rp, rec)
	return rp, confirmed
}

func runReplay(w *World, o *Oblig, dir string, timeout int) (rr replayResult) {
	g := o.gen
	fn := g.top
	ri := g.replay
	if ri == nil {
		rr.Reason = "no replay information"
		return
	}
	if fn.Signature.Recv() != nil && !hasReplayRecv(g.topC) {
		rr.Reason = "method replay needs a `replay recv` constructor in the contract"
		return
	}
	pkg := fn.Pkg.Pkg
	qual := func(p *types.Package) string {
		if p == pkg {
			return ""
		}
		return p.Name()
	}
	// terms to evaluate
	type argInfo struct {
		name  string
		typ   types.Type
		terms []string // scalar: 1 term; []byte/string/array: len + elements
		kind  string
	}
	const maxBytes = 96
	var args []argInfo
	var terms []string
	params := fn.Params
	for _, p := range params {
		t := p.Type()
		pt := g.topParams[p.Name()].t
		ai := argInfo{name: p.Name(), typ: t}
		switch u := t.Underlying().(type) {
		case *types.Basic:
			if isInteger(t) || isBool(t) {
				ai.kind = "scalar"
				ai.terms = []string{pt}
			} else if isString(t) {
				ai.kind = "bytes"
				ai.terms = append(ai.terms, "(len "+pt+")")
				c, _ := g.memComp(types.Typ[types.Uint8])
				for i := 0; i < maxBytes; i++ {
					ai.terms = append(ai.terms, fmt.Sprintf("(select (select %s (base %s)) %s)", g.entry[c], pt, g.addIdx("(off "+pt+")", g.idx(int64(i)))))
				}
			}
		case *types.Slice:
			if b, ok := u.Elem().Underlying().(*types.Basic); ok && b.Kind() == types.Uint8 {
				ai.kind = "bytes"
				ai.terms = append(ai.terms, "(len "+pt+")")
				c, _ := g.memComp(types.Typ[types.Uint8])
				for i := 0; i < maxBytes; i++ {
					ai.terms = append(ai.terms, fmt.Sprintf("(select (select %s (base %s)) %s)", g.entry[c], pt, g.addIdx("(off "+pt+")", g.idx(int64(i)))))
				}
			}
		case *types.Array:
			if b, ok := u.Elem().Underlying().(*types.Basic); ok && b.Kind() == types.Uint8 && u.Len() <= 64 {
				ai.kind = "array"
				for i := int64(0); i < u.Len(); i++ {
					ai.terms = append(ai.terms, fmt.Sprintf("(select %s %s)", pt, g.idx(i)))
				}
			}
		}
		if fn.Signature.Recv() != nil && p == params[0] {
			ai.kind = "recv"
		}
		if ai.kind == "" {
			rr.Reason = fmt.Sprintf("parameter %s of type %s cannot be rebuilt from a model", p.Name(), t)
			return
		}
		args = append(args, ai)
		terms = append(terms, ai.terms...)
	}
	for _, in := range ri.inputs {
		terms = append(terms, in.term)
	}
	// extra terms requested by a `replay recv` constructor
	recvTerms := map[string]string{}
	recvBytes := map[string][]string{} // name -> [len term, element terms...]
	if g.topC != nil {
		for _, l := range g.topC.Replay {
			if strings.HasPrefix(l, "bytes ") {
				// bytes NAME = <contract expression of type []byte> (entry state)
				rest := strings.TrimPrefix(l, "bytes ")
				if i := strings.Index(rest, "="); i > 0 {
					name := strings.TrimSpace(rest[:i])
					if e, err := ParseExpr(rest[i+1:]); err == nil {
						func() {
							defer func() { recover() }()
							env := &TEnv{g: g, vars: g.topParams, pkg: g.topC.Pkg, oldEntry: true, inOld: true}
							nd := len(g.defs)
							v := g.trans(e, env)
							g.defs = g.defs[:nd]
							c, _ := g.memComp(types.Typ[types.Uint8])
							ts := []string{"(len " + v.t + ")"}
							for k := 0; k < maxBytes; k++ {
								ts = append(ts, fmt.Sprintf("(select (select %s (base %s)) %s)", g.entry[c], v.t, g.addIdx("(off "+v.t+")", g.idx(int64(k)))))
							}
							recvBytes[name] = ts
							terms = append(terms, ts...)
						}()
					}
				}
			}
			if strings.HasPrefix(l, "term ") {
				// term name = contract expression
				rest := strings.TrimPrefix(l, "term ")
				if i := strings.Index(rest, "="); i > 0 {
					name := strings.TrimSpace(rest[:i])
					if e, err := ParseExpr(rest[i+1:]); err == nil {
						func() {
							defer func() { recover() }()
							env := &TEnv{g: g, vars: g.topParams, pkg: g.topC.Pkg, oldEntry: true, inOld: true}
							nd := len(g.defs)
							v := g.trans(e, env)
							g.defs = g.defs[:nd]
							recvTerms[name] = v.t
							terms = append(terms, v.t)
						}()
					}
				}
			}
		}
	}
	if len(terms) == 0 {
		terms = []string{"true"}
	}
	// prefer a small counterexample: byte strings of at most 64 bytes; fall back to any model
	var small strings.Builder
	addSmall := func(lenTerm string) {
		fmt.Fprintf(&small, "(assert (and %s %s))\n", g.le(g.idx(0), lenTerm, true), g.le(lenTerm, g.idx(64), true))
	}
	for _, a := range args {
		if a.kind == "bytes" {
			addSmall(a.terms[0])
		}
	}
	for _, ts := range recvBytes {
		addSmall(ts[0])
	}
	var mv map[string]string
	if small.Len() > 0 {
		for _, s := range []string{o.Solver, "z3-new", "cvc5"} {
			if mv = modelValuesExtra(o, s, terms, timeout, small.String()); mv != nil {
				break
			}
		}
	}
	if mv == nil {
		mv = modelValues(o, o.Solver, terms, timeout)
	}
	if mv == nil {
		rr.Reason = "could not obtain model values from " + o.Solver
		return
	}
	rr.Model = map[string]string{}
	// Go argument expressions
	var goArgs []string
	var pins []string
	recvExpr := ""
	for _, a := range args {
		switch a.kind {
		case "scalar":
			v := mv[a.terms[0]]
			rr.Model[a.name] = v
			pins = append(pins, fmt.Sprintf("(assert (= %s %s))", a.terms[0], v))
			if isBool(a.typ) {
				goArgs = append(goArgs, v)
			} else {
				lit, ok := goIntLit(v, a.typ, qual)
				if !ok {
					rr.Reason = "cannot convert model value " + v
					return
				}
				goArgs = append(goArgs, lit)
			}
		case "bytes":
			ln, _, ok := smtInt(mv[a.terms[0]])
			if !ok || ln.Sign() < 0 || ln.Cmp(big.NewInt(maxBytes)) > 0 {
				rr.Reason = fmt.Sprintf("model length of %s (%s) is outside the replayable range", a.name, mv[a.terms[0]])
				rr.Model[a.name+".len"] = mv[a.terms[0]]
				return
			}
			pins = append(pins, fmt.Sprintf("(assert (= %s %s))", a.terms[0], mv[a.terms[0]]))
			var bs []string
			for i := 0; i < int(ln.Int64()); i++ {
				b, _, _ := smtInt(mv[a.terms[1+i]])
				if b == nil {
					b = big.NewInt(0)
				}
				bs = append(bs, b.String())
				pins = append(pins, fmt.Sprintf("(assert (= %s %s))", a.terms[1+i], mv[a.terms[1+i]]))
			}
			rr.Model[a.name] = "[" + strings.Join(bs, " ") + "]"
			lit := "[]byte{" + strings.Join(bs, ", ") + "}"
			if isString(a.typ) {
				lit = "string(" + lit + ")"
			} else if _, named := a.typ.(*types.Named); named {
				lit = types.TypeString(a.typ, qual) + "(" + lit + ")"
			}
			goArgs = append(goArgs, lit)
		case "array":
			var bs []string
			for i := range a.terms {
				b, _, _ := smtInt(mv[a.terms[i]])
				if b == nil {
					b = big.NewInt(0)
				}
				bs = append(bs, b.String())
				pins = append(pins, fmt.Sprintf("(assert (= %s %s))", a.terms[i], mv[a.terms[i]]))
			}
			rr.Model[a.name] = "[" + strings.Join(bs, " ") + "]"
			goArgs = append(goArgs, types.TypeString(a.typ, qual)+"{"+strings.Join(bs, ", ")+"}")
		case "recv":
			recvExpr = "recv"
		}
	}
	var setup []string
	for _, in := range ri.inputs {
		v := mv[in.term]
		rr.Model[in.expr] = v
		pins = append(pins, fmt.Sprintf("(assert (= %s %s))", in.term, v))
		if in.typ != nil && isBool(in.typ) {
			setup = append(setup, fmt.Sprintf("%s = %s", in.expr, v))
		} else if in.typ != nil && isInteger(in.typ) {
			lit, ok := goIntLit(v, in.typ, qual)
			if !ok {
				rr.Reason = "cannot convert model value " + v
				return
			}
			setup = append(setup, fmt.Sprintf("%s = %s", in.expr, lit))
		}
	}
	// receiver constructor: `replay recv <Go expr>` with $name placeholders for `replay term` values
	if recvExpr != "" {
		for _, l := range g.topC.Replay {
			if strings.HasPrefix(l, "recv ") {
				ex := strings.TrimPrefix(l, "recv ")
				for name, ts := range recvBytes {
					ln, _, ok := smtInt(mv[ts[0]])
					if !ok || ln.Sign() < 0 || ln.Cmp(big.NewInt(maxBytes)) > 0 {
						rr.Reason = fmt.Sprintf("model length of %s (%s) is outside the replayable range", name, mv[ts[0]])
						return
					}
					pins = append(pins, fmt.Sprintf("(assert (= %s %s))", ts[0], mv[ts[0]]))
					var bs []string
					for i := 0; i < int(ln.Int64()); i++ {
						b, _, _ := smtInt(mv[ts[1+i]])
						if b == nil {
							b = big.NewInt(0)
						}
						bs = append(bs, b.String())
						pins = append(pins, fmt.Sprintf("(assert (= %s %s))", ts[1+i], mv[ts[1+i]]))
					}
					rr.Model[name] = "[" + strings.Join(bs, " ") + "]"
					ex = strings.ReplaceAll(ex, "$"+name, "[]byte{"+strings.Join(bs, ", ")+"}")
				}
				for name, t := range recvTerms {
					n, _, ok := smtInt(mv[t])
					val := mv[t]
					if ok {
						val = n.String()
					}
					ex = strings.ReplaceAll(ex, "$"+name, val)
					rr.Model[name] = mv[t]
					pins = append(pins, fmt.Sprintf("(assert (= %s %s))", t, mv[t]))
				}
				setup = append(setup, "recv := "+ex)
			}
		}
	}
	// imports used by setup expressions
	imports := map[string]string{}
	if p := w.ByPath[pkg.Path()]; p != nil {
		for path, ip := range p.Imports {
			for _, s := range append(setup, goArgs...) {
				if strings.Contains(s, ip.Name+".") {
					imports[ip.Name] = path
				}
			}
		}
	}
	var sb strings.Builder
	fmt.Fprintf(&sb, "package %s\n\nimport (\n\t\"encoding/json\"\n\t\"fmt\"\n\t\"testing\"\n", pkg.Name())
	var inames []string
	for n := range imports {
		inames = append(inames, n)
	}
	sort.Strings(inames)
	for _, n := range inames {
		if n != "json" && n != "fmt" && n != "testing" {
			fmt.Fprintf(&sb, "\t%s %q\n", n, imports[n])
		}
	}
	sb.WriteString(")\n\n")
	fmt.Fprintf(&sb, "// replay of obligation %s\nfunc TestZZVerifReplay(t *testing.T) {\n\tout := map[string]interface{}{}\n", o.Name)
	sb.WriteString("\tdefer func() {\n\t\tif r := recover(); r != nil {\n\t\t\tout[\"panic\"] = fmt.Sprint(r)\n\t\t}\n\t\tb, _ := json.Marshal(out)\n\t\tfmt.Println(\"VERIFREPLAY:\" + string(b))\n\t}()\n")
	for _, s := range setup {
		sb.WriteString("\t" + s + "\n")
	}
	rs := fn.Signature.Results()
	var lhs []string
	for i := 0; i < rs.Len(); i++ {
		lhs = append(lhs, fmt.Sprintf("r%d", i))
	}
	call := fn.Name() + "(" + strings.Join(goArgs, ", ") + ")"
	if recvExpr != "" {
		call = "recv." + fn.Name() + "(" + strings.Join(goArgs, ", ") + ")"
	}
	if len(lhs) > 0 {
		fmt.Fprintf(&sb, "\t%s := %s\n", strings.Join(lhs, ", "), call)
	} else {
		fmt.Fprintf(&sb, "\t%s\n", call)
	}
	for i := 0; i < rs.Len(); i++ {
		t := rs.At(i).Type()
		switch {
		case isInteger(t), isBool(t):
			fmt.Fprintf(&sb, "\tout[\"r%d\"] = fmt.Sprint(r%d)\n", i, i)
		case types.TypeString(t, nil) == "error":
			fmt.Fprintf(&sb, "\tout[\"r%d\"] = fmt.Sprint(r%d == nil)\n\tif r%d != nil {\n\t\tout[\"r%d_msg\"] = r%d.Error()\n\t}\n", i, i, i, i, i)
		default:
			switch u := t.Underlying().(type) {
			case *types.Slice:
				fmt.Fprintf(&sb, "\tout[\"r%d_len\"] = fmt.Sprint(len(r%d))\n", i, i)
			case *types.Array:
				if b, ok := u.Elem().Underlying().(*types.Basic); ok && b.Kind() == types.Uint8 {
					fmt.Fprintf(&sb, "\tout[\"r%d_hex\"] = fmt.Sprintf(\"%%x\", r%d[:])\n", i, i)
				} else {
					fmt.Fprintf(&sb, "\t_ = r%d\n", i)
				}
			default:
				if isString(t) {
					fmt.Fprintf(&sb, "\tout[\"r%d_len\"] = fmt.Sprint(len(r%d))\n", i, i)
				} else {
					fmt.Fprintf(&sb, "\t_ = r%d\n", i)
				}
			}
		}
	}
	for i, ob := range ri.observes {
		fmt.Fprintf(&sb, "\tout[\"o%d\"] = fmt.Sprint(%s)\n", i, ob.expr)
	}
	sb.WriteString("}\n")
	rr.TestSrc = sb.String()
	out, obs := runOverlayTest(filepath.Dir(w.Prog.Fset.Position(fn.Pos()).Filename), "zz_verif_replay_test.go", rr.TestSrc, "TestZZVerifReplay", "VERIFREPLAY:")
	rr.Output = out
	if obs == nil {
		rr.Reason = "the replay test did not run to completion (build error, fatal error or timeout)"
		if strings.Contains(out, "stack overflow") || strings.Contains(out, "goroutine stack exceeds") {
			rr.Confirmed = true
			rr.Reason = "the real code overflows the stack on the model input (fatal, unrecoverable)"
		}
		return
	}
	if p, ok := obs["panic"]; ok {
		if strings.Contains(fmt.Sprint(p), "verifhook: assumption violated") {
			rr.Reason = "the model input is outside the harness's assumed domain when run for real (not reproduced)"
			return
		}
		rr.Confirmed = true
		rr.Reason = fmt.Sprintf("the real code panics on the model input: %v", p)
		return
	}
	if safetyKind(o.Kind) {
		rr.Reason = "the real code did not panic on the model input"
		return
	}
	if ri.heapDep {
		rr.Reason = "postconditions depend on the post-state heap; outputs alone do not decide them"
		return
	}
	if len(ri.ensures) == 0 {
		rr.Reason = "the function has no exported postcondition to evaluate on the real outputs"
		return
	}
	// pin outputs and evaluate the exported postconditions
	for i := 0; i < rs.Len(); i++ {
		t := rs.At(i).Type()
		ov, ok := obs[fmt.Sprintf("r%d", i)].(string)
		if !ok {
			// partially observable results: length of slices/strings, bytes of byte arrays; anything
			// else stays unpinned (confirmation then needs the postconditions to fail regardless of it)
			if lv, ok := obs[fmt.Sprintf("r%d_len", i)].(string); ok {
				n, _ := new(big.Int).SetString(lv, 10)
				pins = append(pins, fmt.Sprintf("(assert (= (len %s) %s))", ri.resConsts[i], g.numBig(n, types.Typ[types.Int])))
			}
			if hv, ok := obs[fmt.Sprintf("r%d_hex", i)].(string); ok {
				for k := 0; k+1 < len(hv); k += 2 {
					b, _ := new(big.Int).SetString(hv[k:k+2], 16)
					pins = append(pins, fmt.Sprintf("(assert (= (select %s %s) %s))", ri.resConsts[i], g.idx(int64(k/2)), g.numBig(b, types.Typ[types.Uint8])))
				}
			}
			continue
		}
		switch {
		case isBool(t):
			pins = append(pins, fmt.Sprintf("(assert (= %s %s))", ri.resConsts[i], ov))
		case isInteger(t):
			n, _ := new(big.Int).SetString(ov, 10)
			pins = append(pins, fmt.Sprintf("(assert (= %s %s))", ri.resConsts[i], g.numBig(n, t)))
		default: // error
			if ov == "true" {
				pins = append(pins, fmt.Sprintf("(assert (= %s 0))", ri.resConsts[i]))
			} else {
				pins = append(pins, fmt.Sprintf("(assert (not (= %s 0)))", ri.resConsts[i]))
			}
		}
	}
	for i, ob := range ri.observes {
		ov, ok := obs[fmt.Sprintf("o%d", i)].(string)
		if !ok || ob.typ == nil {
			rr.Reason = fmt.Sprintf("observation %s is missing", ob.expr)
			return
		}
		switch {
		case isBool(ob.typ):
			pins = append(pins, fmt.Sprintf("(assert (= %s %s))", ob.term, ov))
		case isInteger(ob.typ):
			n, okn := new(big.Int).SetString(ov, 10)
			if !okn {
				rr.Reason = "observation " + ob.expr + " is not an integer: " + ov
				return
			}
			pins = append(pins, fmt.Sprintf("(assert (= %s %s))", ob.term, g.numBig(n, ob.typ)))
		default:
			rr.Reason = "observation " + ob.expr + " has an unsupported type"
			return
		}
	}
	var q strings.Builder
	q.WriteString(g.prelude())
	for _, d := range g.defs[:ri.entryCtx] {
		q.WriteString(d + "\n")
	}
	for _, d := range ri.extraDefs {
		q.WriteString(d + "\n")
	}
	for _, p := range pins {
		q.WriteString(p + "\n")
	}
	// (1) the pinned context must be consistent; (2) the postconditions must be false in EVERY model
	// of it (pins AND ensures unsat) -- state that is not pinned cannot fake a confirmation.
	base := q.String()
	qf1 := filepath.Join(dir, fileSafe(o.Name)+".replay-consistent.smt2")
	os.WriteFile(qf1, []byte(base+"(check-sat)\n"), 0644)
	qf2 := filepath.Join(dir, fileSafe(o.Name)+".replay-eval.smt2")
	os.WriteFile(qf2, []byte(base+fmt.Sprintf("(assert (and %s true))\n(check-sat)\n", strings.Join(ri.ensures, " "))), 0644)
	st1, _, _, _ := raceSolvers(qf1, timeout)
	st2, _, _, _ := raceSolvers(qf2, timeout)
	if st1 == "sat" && st2 == "unsat" {
		rr.Confirmed = true
		rr.Reason = "an exported postcondition of the function is false on (model inputs, outputs of the real code)"
	} else {
		rr.Reason = fmt.Sprintf("postconditions evaluated on the real outputs: consistent=%s, postconditions-can-hold=%s (violation not reproduced or not determined by the replayed inputs)", st1, st2)
	}
	return
}

func hasReplayRecv(c *Contract) bool {
	if c == nil {
		return false
	}
	for _, l := range c.Replay {
		if strings.HasPrefix(l, "recv ") {
			return true
		}
	}
	return false
}

// run an in-package test injected through an overlay; returns combined output and the JSON object printed after marker
var overlayTestTimeout = 60 // seconds

// overlayTestScratchCwd: compile the test binary and run it in a scratch directory instead of the package
// directory (bounded runs: some packages' test files write files next to themselves from init(), which must not
// dirty /repo)
var overlayTestScratchCwd = false

var replayOverlay map[string][]byte // extra overlay (selftest mutants): the replay then runs the mutated code

func runOverlayTest(pkgDir, fileName, src, testName, marker string) (string, map[string]interface{}) {
	tmp, err := os.MkdirTemp("", "govc-replay")
	if err != nil {
		return err.Error(), nil
	}
	defer os.RemoveAll(tmp)
	tf := filepath.Join(tmp, fileName)
	os.WriteFile(tf, []byte(src), 0644)
	ov := map[string]map[string]string{"Replace": {filepath.Join(pkgDir, fileName): tf}}
	k := 0
	for path, content := range replayOverlay {
		k++
		mf := filepath.Join(tmp, fmt.Sprintf("mutant%d.go", k))
		os.WriteFile(mf, content, 0644)
		ov["Replace"][path] = mf
	}
	ob, _ := json.Marshal(ov)
	of := filepath.Join(tmp, "overlay.json")
	os.WriteFile(of, ob, 0644)
	cmd := exec.Command("sh", "-c", fmt.Sprintf("ulimit -v 8000000; exec go test -tags verif -overlay %s -vet=off -count=1 -v -timeout %ds -run '^%s$' .", of, overlayTestTimeout, testName))
	if overlayTestScratchCwd || filepath.Base(pkgDir) == "merkle" { // merkle's test init() rewrites a tracked file in its cwd
		run := filepath.Join(tmp, "run")
		os.MkdirAll(run, 0755)
		cmd = exec.Command("sh", "-c", fmt.Sprintf("ulimit -v 8000000; go test -tags verif -overlay %s -vet=off -c -o %s/t.test . && cd %s && exec ./t.test -test.v -test.count=1 -test.timeout %ds -test.run '^%s$'", of, run, run, overlayTestTimeout, testName))
	}
	cmd.Dir = pkgDir
	cmd.Env = append(goEnv(), "CGO_LDFLAGS=-Wl,--unresolved-symbols=ignore-all", "CGO_LDFLAGS_ALLOW=.*")
	out, _ := cmd.CombinedOutput()
	for _, l := range strings.Split(string(out), "\n") {
		if i := strings.Index(l, marker); i >= 0 {
			dec := json.NewDecoder(strings.NewReader(l[i+len(marker):]))
			vals := map[string]interface{}{}
			if err := dec.Decode(&vals); err == nil {
				return string(out), vals
			}
		}
	}
	return string(out), nil
}

func cmdReplay(args []string) int {
	if len(args) < 1 {
		fmt.Println("usage: govc replay <replay.json>")
		return 2
	}
	b, err := os.ReadFile(args[0])
	if err != nil {
		fmt.Println(err)
		return 2
	}
	var rec map[string]interface{}
	json.Unmarshal(b, &rec)
	fmt.Printf("obligation: %v\nstatus: %v\nmodel: %v\nconfirmed on real code: %v\nnote: %v\n", rec["obligation"], rec["status"], rec["model"], rec["replay_confirmed"], rec["replay_note"])
	if tf, ok := rec["replay_test"].(string); ok {
		fmt.Printf("replay test source: %s\n", tf)
	}
	if c, ok := rec["replay_confirmed"].(bool); ok && c {
		return 1
	}
	return 0
}
