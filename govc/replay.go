// Replay of counterexamples against the real code (go test -overlay), selftest corpus.
package main

import (
	"fmt"
	"path/filepath"
)

// replayOblig writes the replay file for a failed obligation and, when a model and a replay
// template exist, runs the model against the real code. Returns (path, confirmed).
func replayOblig(w *World, id string, o *Oblig, dir string, timeout int) (string, bool) {
	rp := filepath.Join(dir, fileSafe(o.Name)+".json")
	rec := map[string]interface{}{"property": id, "obligation": o.Name, "clause": o.Desc, "status": o.Status, "solver": o.Solver,
		"smt_file": o.File, "solver_output": trunc(o.Output, 4000)}
	confirmed := false
	if o.Status == "sat" && o.gen != nil {
		terms := o.gen.inputTerms()
		mv := modelValues(o, o.Solver, terms, timeout)
		model := map[string]string{}
		for n, t := range o.gen.inputs {
			if v, ok := mv[t]; ok {
				model[n] = v
			}
		}
		rec["model"] = model
		ok, out := runReplay(w, o, model, dir)
		rec["replay_output"] = trunc(out, 4000)
		rec["replay_confirmed"] = ok
		confirmed = ok
	}
	writeJSON(rp, rec)
	return rp, confirmed
}

func runReplay(w *World, o *Oblig, model map[string]string, dir string) (bool, string) {
	return false, "no replay template for this function"
}

func cmdReplay(args []string) int {
	fmt.Println("replay: see the JSON file; re-run `govc check <id>` to regenerate")
	return 0
}

func cmdSelftest(args []string) int {
	fmt.Println("selftest: not implemented yet")
	return 0
}
