// VC generator: go/ssa function + contracts -> SMT obligations.
package main

import (
	"go/ast"
	"fmt"
	"go/constant"
	"go/token"
	"go/types"
	"math/big"
	"os"
	"sort"
	"strings"

	"golang.org/x/tools/go/ssa"
)

const refBound = "1000000000" // refs of objects existing at function entry / loop head are below this

type Oblig struct {
	Name   string `json:"name"`
	Kind   string `json:"kind"`
	Fn     string `json:"fn"`
	Desc   string `json:"desc,omitempty"`
	Guard  string `json:"-"`
	Prop   string `json:"-"`
	Ctx    int    `json:"-"` // number of defs visible
	Status string `json:"status"`
	Solver string `json:"solver"`
	Ms     int64  `json:"time_ms"`
	Output string `json:"-"`
	File   string `json:"smt_file,omitempty"`
	gen    *Gen
	Bounded bool  `json:"bounded,omitempty"`
	Opaque []string `json:"opaque,omitempty"`
	NoAssumed bool `json:"-"` // query variant without the "asserted, then assumed" context lines (replay search)
	Hide  []int `json:"-"` // context lines not shown to this obligation (`forgets earlier invariants`)
	RetID int `json:"-"` // created while processing the RetID-th return (sees that return's local context)
}

type pathElem struct {
	isIdx bool
	idx   string
	field int
	st    types.Type // struct type (for field)
}

type lval struct {
	kind string // "heap": comp is Array Int X, addressed by ref; "local": comp is X
	comp string
	csort string // sort of X
	ref  string
	path []pathElem
	typ  types.Type // type of the location
	// for heap object of struct type reached via plain ref (no comp): objRef set
	obj bool // location is a whole heap object (struct/array) at ref `ref` of type typ
}

type closure struct {
	fn       *ssa.Function
	bindings []ssa.Value
	bterms   []string
	owner    *frame
}

// frame: per-function (or per-inlined-call) symbolic state
type frame struct {
	loopKeepExcl map[*ssa.BasicBlock]map[string][]string // loop head -> component -> assigns targets excluded from `keeps old objects`
	loopKeep map[*ssa.BasicBlock]map[string]string // loop head -> component -> heap version at the head (`keeps old objects`)
	fn     *ssa.Function
	c      *Contract
	val    map[ssa.Value]string
	lv     map[ssa.Value]*lval
	clo    map[ssa.Value]*closure
	tuple  map[ssa.Value][]string
	heap   map[*ssa.BasicBlock]map[string]string
	reach  map[*ssa.BasicBlock]string
	edge   map[[2]int]string
	named  map[string]ssa.Value // source var name -> latest phi
	params map[string]tvT
	fvs    map[*ssa.FreeVar]string
	rets   []inlRet
	inl    bool
	localAlloc map[*ssa.Alloc]bool
	defers []deferred
	oldHeap map[string]string
	entryR string
	loopK  map[*ssa.BasicBlock]int
	callOrd map[string]int
	assignPos map[token.Pos]bool
	callPosOrd map[token.Pos]int
	defPosOrd  map[token.Pos]int
	namedAll   map[string][]namedDef
	namedAddr  map[string][]namedDef // addressable source variables: name -> address values
	curBlock   *ssa.BasicBlock
	rangeSeen  map[*ssa.Range]string // map iteration -> ghost component holding the keys produced so far
	rangeDom   map[*ssa.Range]string // map iteration -> the map's key set when the iteration began
}

type deferred struct {
	guard string
	call  *ssa.Defer
}

type inlRet struct {
	reach   string
	results []string
	heap    map[string]string
}

type Gen struct {
	w      *World
	bv     bool
	top    *ssa.Function
	topC   *Contract
	fr     *frame
	decls  []string
	defs   []string
	obs    []*Oblig
	comps  map[string]string // component -> sort
	entry  map[string]string
	cur    map[string]string
	curR   string
	nfresh int
	kinds  map[string]int
	notes  []string
	dts    []string          // datatype declarations in order
	dtSeen map[string]bool
	prel   []string          // spec function definitions etc
	prelSeen map[string]bool
	funDecl map[string]bool
	depth  int
	pristine map[string]bool
	storedAt map[string][]string
	refComps map[string]string // reference-valued heap components: field | mem | slicefield
	assumptions map[string]bool
	fnName string
	usedSpecs map[string]bool
	trustedUsed map[string]bool
	inlinedFns map[string]bool
	usedLemmas map[string]bool
	abstract bool
	nosafety bool
	unrollDepth int
	covers []*Oblig
	inputs map[string]string
	topParams map[string]tvT
	nret int
	replay *replayInfo
	assumedIdx []int
	invIdx     []int         // context lines that are loop invariants / proof steps (candidates for `forgets earlier invariants`)
	headStart  map[*ssa.BasicBlock]int // loop head -> number of context lines when it was reached
	baseHide   []int         // hidden from every obligation generated after a `cut at` clause
	curHide    []int         // context lines hidden from the obligations being generated now
	inRet      int      // ordinal of the return being processed (0 outside)
	retLocal   [][3]int // [from, to, ret]: context lines that only matter to the obligations of that return
	firedAnchors map[string]bool
	ncallFresh int
	globalAx []string
	privObjs [][]target
	lastPrecise map[string][]string
	lastFreshOnly map[string]bool // components whose every write inside the last analysed loop body goes to an object allocated in that body
}

func newGen(w *World, fn *ssa.Function, c *Contract) *Gen {
	g := &Gen{w: w, top: fn, topC: c, comps: map[string]string{}, entry: map[string]string{}, cur: map[string]string{},
		kinds: map[string]int{}, dtSeen: map[string]bool{}, prelSeen: map[string]bool{}, funDecl: map[string]bool{},
		pristine: map[string]bool{}, storedAt: map[string][]string{}, refComps: map[string]string{}, assumptions: map[string]bool{}, usedSpecs: map[string]bool{}, trustedUsed: map[string]bool{}, inlinedFns: map[string]bool{}, usedLemmas: map[string]bool{}}
	g.bv = c.Mode != "int"
	g.abstract = c.Abstract
	g.nosafety = c.NoSafety
	if fn != nil {
		g.fnName = shortFn(funcKey(fn))
	}
	return g
}

func shortFn(k string) string {
	return strings.ReplaceAll(k, "github.com/ontio/ontology/", "")
}

func (g *Gen) note(f string, a ...interface{}) {
	g.notes = append(g.notes, fmt.Sprintf(f, a...))
}

func (g *Gen) fresh(prefix, sortS string) string {
	g.nfresh++
	n := fmt.Sprintf("%s!%d", sanitize(prefix), g.nfresh)
	g.decls = append(g.decls, fmt.Sprintf("(declare-const |%s| %s)", n, sortS))
	return "|" + n + "|"
}

func sanitize(s string) string {
	return strings.NewReplacer("|", "_", "\\", "_", " ", "_", "(", "_", ")", "_").Replace(s)
}

func (g *Gen) define(prefix, sortS, term string) string {
	n := g.fresh(prefix, sortS)
	g.defs = append(g.defs, fmt.Sprintf("(assert (= %s %s))", n, term))
	return n
}

func (g *Gen) assume(guard, a string) {
	if guard == "true" {
		g.defs = append(g.defs, fmt.Sprintf("(assert %s)", a))
		return
	}
	g.defs = append(g.defs, fmt.Sprintf("(assert (=> %s %s))", guard, a))
}

// assumeProved: a clause that has just been asserted is assumed for what follows (proof steps chain);
// these context lines are remembered so that replay can drop them (see replayOblig).
func (g *Gen) assumeProved(guard, a string) {
	g.assumedIdx = append(g.assumedIdx, len(g.defs))
	g.invIdx = append(g.invIdx, len(g.defs))
	g.assume(guard, a)
}

// assumeGlobal: a fact about declared symbols only (no path condition); kept outside the ordered
// context so that translation roll-backs cannot lose it
func (g *Gen) assumeGlobal(a string) {
	g.globalAx = append(g.globalAx, fmt.Sprintf("(assert %s)", a))
}

func (g *Gen) assumeAlways(a string) {
	g.defs = append(g.defs, fmt.Sprintf("(assert %s)", a))
}

func (g *Gen) ob(kind, label, prop, desc string) *Oblig {
	base := kind
	if label != "" {
		base = kind + "#" + label
	}
	g.kinds[base]++
	name := base
	if label == "" {
		name = fmt.Sprintf("%s#%d", kind, g.kinds[base])
	} else if g.kinds[base] > 1 {
		name = fmt.Sprintf("%s@%d", base, g.kinds[base])
	}
	o := &Oblig{Name: g.fnName + "/" + name, Kind: kind, Fn: g.fnName, Guard: g.curR, Prop: prop, Ctx: len(g.defs), Desc: desc, gen: g, RetID: g.inRet, Hide: g.curHide}
	if g.topC != nil {
		o.Opaque = g.topC.Opaque
	}
	g.obs = append(g.obs, o)
	return o
}

// safety obligation (suppressed in nosafety/abstract mode)
func (g *Gen) safety(kind, prop, desc string) {
	if g.nosafety {
		return
	}
	g.ob(kind, "", prop, desc)
}

// ---------- sorts ----------

func intBits(b *types.Basic) (int, bool) { // bits, signed
	switch b.Kind() {
	case types.Int8:
		return 8, true
	case types.Int16:
		return 16, true
	case types.Int32, types.UntypedRune:
		return 32, true
	case types.Int64, types.Int:
		return 64, true
	case types.Uint8:
		return 8, false
	case types.Uint16:
		return 16, false
	case types.Uint32:
		return 32, false
	case types.Uint64, types.Uint, types.Uintptr:
		return 64, false
	case types.UntypedInt:
		return 64, true
	}
	return 0, false
}

func isInteger(t types.Type) bool {
	b, ok := t.Underlying().(*types.Basic)
	return ok && b.Info()&types.IsInteger != 0
}
func isBool(t types.Type) bool {
	b, ok := t.Underlying().(*types.Basic)
	return ok && b.Info()&types.IsBoolean != 0
}
func isString(t types.Type) bool {
	b, ok := t.Underlying().(*types.Basic)
	return ok && b.Info()&types.IsString != 0
}
func isSigned(t types.Type) bool {
	if b, ok := t.Underlying().(*types.Basic); ok {
		_, s := intBits(b)
		return s
	}
	return true
}
func bitsOf(t types.Type) int {
	if b, ok := t.Underlying().(*types.Basic); ok {
		n, _ := intBits(b)
		return n
	}
	return 64
}

func (g *Gen) idxSort() string {
	if g.bv {
		return "(_ BitVec 64)"
	}
	return "Int"
}

func (g *Gen) sortOf(t types.Type) string {
	switch u := t.Underlying().(type) {
	case *types.Basic:
		if u.Info()&types.IsBoolean != 0 {
			return "Bool"
		}
		if u.Info()&types.IsInteger != 0 {
			if g.bv {
				n, _ := intBits(u)
				return fmt.Sprintf("(_ BitVec %d)", n)
			}
			return "Int"
		}
		if u.Info()&types.IsString != 0 {
			return "Slice"
		}
		return "Int" // float etc: opaque
	case *types.Pointer, *types.Map, *types.Chan, *types.Signature, *types.Interface:
		return "Int"
	case *types.Slice:
		return "Slice"
	case *types.Array:
		return fmt.Sprintf("(Array %s %s)", g.idxSort(), g.sortOf(u.Elem()))
	case *types.Struct:
		return g.structSort(t)
	case *types.Tuple:
		return "Int"
	}
	return "Int"
}

func (g *Gen) structSort(t types.Type) string {
	st := t.Underlying().(*types.Struct)
	name := "S_" + g.w.typeName(t)
	if g.dtSeen[name] {
		return name
	}
	g.dtSeen[name] = true
	var fs []string
	for i := 0; i < st.NumFields(); i++ {
		fs = append(fs, fmt.Sprintf("(|%s.%s| %s)", name, st.Field(i).Name(), g.sortOf(st.Field(i).Type())))
	}
	g.dts = append(g.dts, fmt.Sprintf("(declare-datatypes ((%s 0)) (((|mk-%s| %s))))", name, name, strings.Join(fs, " ")))
	return name
}

func (g *Gen) fieldSel(t types.Type, i int, v string) string {
	name := g.structSort(t)
	st := t.Underlying().(*types.Struct)
	return fmt.Sprintf("(|%s.%s| %s)", name, st.Field(i).Name(), v)
}

func (g *Gen) mkStruct(t types.Type, fields []string) string {
	name := g.structSort(t)
	if len(fields) == 0 {
		return "|mk-" + name + "|"
	}
	return fmt.Sprintf("(|mk-%s| %s)", name, strings.Join(fields, " "))
}

func pow2(n int) string {
	return new(big.Int).Lsh(big.NewInt(1), uint(n)).String()
}

func (g *Gen) bvlit(v *big.Int, n int) string {
	m := new(big.Int).Lsh(big.NewInt(1), uint(n))
	x := new(big.Int).Mod(v, m)
	return fmt.Sprintf("(_ bv%s %d)", x.String(), n)
}

func (g *Gen) num(v int64, t types.Type) string {
	return g.numBig(big.NewInt(v), t)
}

func (g *Gen) numBig(v *big.Int, t types.Type) string {
	if g.bv {
		n := 64
		if t != nil {
			if b, ok := t.Underlying().(*types.Basic); ok {
				if k, _ := intBits(b); k > 0 {
					n = k
				}
			}
		}
		return g.bvlit(v, n)
	}
	if v.Sign() < 0 {
		return fmt.Sprintf("(- %s)", new(big.Int).Neg(v).String())
	}
	return v.String()
}

func (g *Gen) idx(v int64) string {
	if g.bv {
		return g.bvlit(big.NewInt(v), 64)
	}
	if v < 0 {
		return fmt.Sprintf("(- %d)", -v)
	}
	return fmt.Sprintf("%d", v)
}

func (g *Gen) zeroValue(t types.Type) string {
	switch u := t.Underlying().(type) {
	case *types.Basic:
		if u.Info()&types.IsBoolean != 0 {
			return "false"
		}
		if u.Info()&types.IsInteger != 0 {
			return g.num(0, t)
		}
		if u.Info()&types.IsString != 0 {
			return g.nilSlice()
		}
		return "0"
	case *types.Slice:
		return g.nilSlice()
	case *types.Array:
		return fmt.Sprintf("((as const %s) %s)", g.sortOf(t), g.zeroValue(u.Elem()))
	case *types.Struct:
		var fs []string
		for i := 0; i < u.NumFields(); i++ {
			fs = append(fs, g.zeroValue(u.Field(i).Type()))
		}
		return g.mkStruct(t, fs)
	}
	return "0"
}

func (g *Gen) nilSlice() string {
	return fmt.Sprintf("(mk-slice 0 %s %s %s)", g.idx(0), g.idx(0), g.idx(0))
}

// type invariant of a value of Go type t (range for ints in int mode, slice wf, ref >= 0)
func (g *Gen) typeInv(term string, t types.Type, old bool) string {
	switch u := t.Underlying().(type) {
	case *types.Basic:
		if u.Info()&types.IsInteger != 0 && !g.bv {
			n, s := intBits(u)
			if s {
				return fmt.Sprintf("(and (<= (- %s) %s) (<= %s %s))", pow2(n-1), term, term, new(big.Int).Sub(new(big.Int).Lsh(big.NewInt(1), uint(n-1)), big.NewInt(1)).String())
			}
			return fmt.Sprintf("(and (<= 0 %s) (<= %s %s))", term, term, new(big.Int).Sub(new(big.Int).Lsh(big.NewInt(1), uint(n)), big.NewInt(1)).String())
		}
		if u.Info()&types.IsString != 0 {
			return g.sliceWF(term, old)
		}
	case *types.Slice:
		return g.sliceWF(term, old)
	case *types.Pointer, *types.Map, *types.Interface, *types.Signature, *types.Chan:
		if old {
			return fmt.Sprintf("(and (<= 0 %s) (< %s %s))", term, term, refBound)
		}
		return fmt.Sprintf("(<= 0 %s)", term)
	case *types.Array:
		// an array VALUE of integers (Address, Uint256, I128 passed or returned by value): in the mathematical
		// integer mode every element is a value of its type (explicit conjuncts: these arrays are short)
		if !g.bv && isInteger(u.Elem()) && u.Len() <= 64 {
			var cs []string
			for i := int64(0); i < u.Len(); i++ {
				cs = append(cs, g.typeInv(fmt.Sprintf("(select %s %d)", term, i), u.Elem(), old))
			}
			return "(and " + strings.Join(cs, " ") + ")"
		}
	case *types.Struct:
		var cs []string
		for i := 0; i < u.NumFields(); i++ {
			if c := g.typeInv(g.fieldSel(t, i, term), u.Field(i).Type(), old); c != "true" {
				cs = append(cs, c)
			}
		}
		if len(cs) > 0 {
			return "(and " + strings.Join(cs, " ") + ")"
		}
	}
	return "true"
}

func (g *Gen) sliceWF(s string, old bool) string {
	var c string
	if g.bv {
		c = fmt.Sprintf("(and (bvsle (_ bv0 64) (off %s)) (bvsle (_ bv0 64) (len %s)) (bvsle (len %s) (cap %s)) (bvslt (cap %s) (_ bv281474976710656 64)) (bvslt (off %s) (_ bv281474976710656 64)) (<= 0 (base %s)) (=> (= (base %s) 0) (= (cap %s) (_ bv0 64)))", s, s, s, s, s, s, s, s, s)
	} else {
		c = fmt.Sprintf("(and (<= 0 (off %s)) (<= 0 (len %s)) (<= (len %s) (cap %s)) (< (cap %s) 281474976710656) (< (off %s) 281474976710656) (<= 0 (base %s)) (=> (= (base %s) 0) (= (cap %s) 0))", s, s, s, s, s, s, s, s, s)
	}
	if old {
		c += fmt.Sprintf(" (< (base %s) %s)", s, refBound)
	}
	return c + ")"
}

func (g *Gen) wrap(term string, t types.Type) string {
	if g.bv {
		return term
	}
	b, ok := t.Underlying().(*types.Basic)
	if !ok {
		return term
	}
	n, s := intBits(b)
	if n == 0 {
		return term
	}
	if s {
		return fmt.Sprintf("(- (mod (+ %s %s) %s) %s)", term, pow2(n-1), pow2(n), pow2(n-1))
	}
	return fmt.Sprintf("(mod %s %s)", term, pow2(n))
}

// ---------- heap components ----------

func (g *Gen) comp(name, sortS string) {
	if _, ok := g.comps[name]; !ok {
		g.comps[name] = sortS
		e := g.fresh("H_"+name+"@entry", sortS)
		g.entry[name] = e
		g.pristine[e] = true
	}
}

func (g *Gen) heapGet(name string) string {
	if t, ok := g.cur[name]; ok {
		return t
	}
	return g.entry[name]
}

func (g *Gen) heapSet(name, term string, pristine bool) {
	g.cur[name] = term
	if pristine {
		g.pristine[term] = true
	}
}

func (g *Gen) fieldComp(st types.Type, i int) (string, string) {
	s := st.Underlying().(*types.Struct)
	name := "F_" + g.w.typeName(st) + "_" + s.Field(i).Name()
	so := g.sortOf(s.Field(i).Type())
	g.comp(name, fmt.Sprintf("(Array Int %s)", so))
	if isRefType(s.Field(i).Type()) && so == "Int" {
		g.entryRefsAxiom(name, false)
		g.refComps[name] = "field"
	}
	if _, isSlice := s.Field(i).Type().Underlying().(*types.Slice); isSlice && so == "Slice" {
		g.refComps[name] = "slicefield"
		// likewise the backing array of every slice stored in an entry object existed at entry
		if key := "entryrefs:" + name; !g.prelSeen[key] {
			g.prelSeen[key] = true
			e := g.entry[name]
			g.assumeGlobal(fmt.Sprintf("(forall ((r Int)) (! (and (<= 0 (base (select %s r))) (< (base (select %s r)) %s)) :pattern ((select %s r))))", e, e, refBound, e))
		}
	}
	return name, so
}

func (g *Gen) memComp(elem types.Type) (string, string) {
	name := "M_" + g.w.typeName(elem)
	so := fmt.Sprintf("(Array %s %s)", g.idxSort(), g.sortOf(elem))
	g.comp(name, fmt.Sprintf("(Array Int %s)", so))
	if isRefType(elem) && g.sortOf(elem) == "Int" {
		g.entryRefsAxiom(name, true)
		g.refComps[name] = "mem"
	}
	if _, isSlice := elem.Underlying().(*types.Slice); isSlice && g.sortOf(elem) == "Slice" {
		// memory whose elements are slices ([][]T): the backing arrays they name are references too
		g.refComps[name] = "slicemem"
		if key := "entryrefs:" + name; !g.prelSeen[key] {
			g.prelSeen[key] = true
			e := g.entry[name]
			g.assumeGlobal(fmt.Sprintf("(forall ((r Int) (i %s)) (! (and (<= 0 (base (select (select %s r) i))) (< (base (select (select %s r) i)) %s)) :pattern ((select (select %s r) i))))", g.idxSort(), e, e, refBound, e))
		}
	}
	return name, so
}

// References held by the heap at a loop head denote objects that existed before the loop head was reached
// (in this or an earlier iteration; the latter are anonymous after the havoc): they are never the objects the
// loop body is about to allocate -- neither this function's own allocation sites still to come, nor the
// ranges reserved for the callees still to be called.
// beforeHere(v): reference v denotes nil or an object that exists at this point of the symbolic execution --
// an entry object, or one of this function's allocations / a callee's reserved range used SO FAR; not one of
// the allocation sites and callee ranges still to come.
func (g *Gen) beforeHere(v string) string {
	if g.nfresh == 0 && g.ncallFresh == 0 {
		return fmt.Sprintf("(and (<= 0 %s) (< %s %s))", v, v, refBound)
	}
	return fmt.Sprintf("(and (<= 0 %s) (not (and (< %d %s) (< %s 1001000000))) (< %s %d000000000000))", v, 1000000000+g.nfresh, v, v, v, 2+g.ncallFresh)
}

func (g *Gen) loopHeadRefsAxiom(name, ver string) {
	kind, ok := g.refComps[name]
	if !ok {
		return
	}
	before := g.beforeHere
	if strings.HasPrefix(kind, "mapval:") {
		ks := strings.TrimPrefix(kind, "mapval:")
		g.assumeGlobal(fmt.Sprintf("(forall ((r Int) (k %s)) (! %s :pattern ((select (select %s r) k))))", ks, before(fmt.Sprintf("(select (select %s r) k)", ver)), ver))
		return
	}
	switch kind {
	case "field":
		g.assumeGlobal(fmt.Sprintf("(forall ((r Int)) (! %s :pattern ((select %s r))))", before(fmt.Sprintf("(select %s r)", ver)), ver))
	case "mem":
		g.assumeGlobal(fmt.Sprintf("(forall ((r Int) (i %s)) (! %s :pattern ((select (select %s r) i))))", g.idxSort(), before(fmt.Sprintf("(select (select %s r) i)", ver)), ver))
	case "slicefield":
		g.assumeGlobal(fmt.Sprintf("(forall ((r Int)) (! %s :pattern ((select %s r))))", before(fmt.Sprintf("(base (select %s r))", ver)), ver))
	case "slicemem":
		g.assumeGlobal(fmt.Sprintf("(forall ((r Int) (i %s)) (! %s :pattern ((select (select %s r) i))))", g.idxSort(), before(fmt.Sprintf("(base (select (select %s r) i))", ver)), ver))
	}
}

func isRefType(t types.Type) bool {
	switch t.Underlying().(type) {
	case *types.Pointer, *types.Map, *types.Chan:
		return true
	}
	return false
}

// Every reference stored anywhere in the heap the function starts with denotes nil or an object that
// existed then (references below refBound): stated once per reference-valued component, for all objects
// and positions, so that it is also available for the positions a quantified contract clause ranges over.
func (g *Gen) entryRefsAxiom(name string, mem bool) {
	key := "entryrefs:" + name
	if g.prelSeen[key] {
		return
	}
	g.prelSeen[key] = true
	e := g.entry[name]
	if mem {
		g.assumeGlobal(fmt.Sprintf("(forall ((r Int) (i %s)) (! (and (<= 0 (select (select %s r) i)) (< (select (select %s r) i) %s)) :pattern ((select (select %s r) i))))", g.idxSort(), e, e, refBound, e))
		return
	}
	g.assumeGlobal(fmt.Sprintf("(forall ((r Int)) (! (and (<= 0 (select %s r)) (< (select %s r) %s)) :pattern ((select %s r))))", e, e, refBound, e))
}

func (g *Gen) cellComp(t types.Type) (string, string) {
	name := "C_" + g.w.typeName(t)
	so := g.sortOf(t)
	g.comp(name, fmt.Sprintf("(Array Int %s)", so))
	return name, so
}

// derived reference for a struct- or array-typed field embedded in object r
func (g *Gen) subRef(st types.Type, i int, r string) string {
	s := st.Underlying().(*types.Struct)
	fn := "fld_" + g.w.typeName(st) + "_" + s.Field(i).Name()
	if !g.funDecl[fn] {
		g.funDecl[fn] = true
		g.prel = append(g.prel, fmt.Sprintf("(declare-fun |%s| (Int) Int)", fn), fmt.Sprintf("(declare-fun |%s_inv| (Int) Int)", fn))
		// the same facts as below, for every object at once (needed where the object is a quantified position,
		// e.g. the hash field of the j-th transaction of a list)
		g.needFldTag()
		g.assumeGlobal(fmt.Sprintf("(forall ((r Int)) (! (ite (= r 0) (= (|%s| r) 0) (and (= (fldtag (|%s| r)) %d) (= (|%s_inv| (|%s| r)) r) (=> (< r %s) (and (< 0 (|%s| r)) (< (|%s| r) %s))) (=> (>= r %s) (>= (|%s| r) %s)) (not (= (|%s| r) 0)))) :pattern ((|%s| r))))", fn, fn, fldCode(fn), fn, fn, refBound, fn, fn, refBound, refBound, fn, refBound, fn, fn))
	}
	t := fmt.Sprintf("(|%s| %s)", fn, r)
	key := "inj:" + t
	if strings.Contains(r, " q_") || strings.Contains(r, "(q_") || strings.HasPrefix(r, "q_") {
		// r mentions a quantifier's bound variable: no ground fact can be stated about it here
		return t
	}
	if !g.prelSeen[key] {
		g.prelSeen[key] = true
		g.needFldTag()
		// the embedded object of nil is nil (taking its address panics at run time); every other object's
		// embedded object is a distinct non-nil reference of the same generation (old / allocated)
		g.assumeGlobal(fmt.Sprintf("(ite (= %s 0) (= %s 0) (and (= (fldtag %s) %d) (= (|%s_inv| %s) %s) (=> (< %s %s) (and (< 0 %s) (< %s %s))) (=> (>= %s %s) (>= %s %s)) (not (= %s 0))))", r, t, t, fldCode(fn), fn, t, r, r, refBound, t, t, refBound, r, refBound, t, refBound, t))
	}
	return t
}

func isAggregate(t types.Type) bool {
	switch t.Underlying().(type) {
	case *types.Struct, *types.Array:
		return true
	}
	return false
}

// load a whole value of type t located at heap ref r
func (g *Gen) loadObj(r string, t types.Type) string {
	switch u := t.Underlying().(type) {
	case *types.Struct:
		var fs []string
		for i := 0; i < u.NumFields(); i++ {
			ft := u.Field(i).Type()
			if isAggregate(ft) {
				fs = append(fs, g.loadObj(g.subRef(t, i, r), ft))
			} else {
				c, _ := g.fieldComp(t, i)
				fs = append(fs, fmt.Sprintf("(select %s %s)", g.heapGet(c), r))
			}
		}
		return g.mkStruct(t, fs)
	case *types.Array:
		c, _ := g.memComp(u.Elem())
		return fmt.Sprintf("(select %s %s)", g.heapGet(c), r)
	}
	c, _ := g.cellComp(t)
	return fmt.Sprintf("(select %s %s)", g.heapGet(c), r)
}

func (g *Gen) storeObj(r string, t types.Type, v string) {
	switch u := t.Underlying().(type) {
	case *types.Struct:
		for i := 0; i < u.NumFields(); i++ {
			ft := u.Field(i).Type()
			fv := g.fieldSel(t, i, v)
			if isAggregate(ft) {
				g.storeObj(g.subRef(t, i, r), ft, fv)
			} else {
				c, _ := g.fieldComp(t, i)
				g.setComp(c, fmt.Sprintf("(store %s %s %s)", g.heapGet(c), r, fv))
			}
		}
		return
	case *types.Array:
		c, _ := g.memComp(u.Elem())
		g.setComp(c, fmt.Sprintf("(store %s %s %s)", g.heapGet(c), r, v))
		return
	}
	c, _ := g.cellComp(t)
	g.setComp(c, fmt.Sprintf("(store %s %s %s)", g.heapGet(c), r, v))
}

func (g *Gen) setComp(c, term string) {
	old := g.heapGet(c)
	n := g.define("H_"+c, g.comps[c], term)
	g.cur[c] = n
	// "pristine" (every reference stored in this version predates the function) survives a store
	// only for components that cannot hold references at all
	if s := g.comps[c]; g.pristine[old] && !strings.Contains(strings.TrimPrefix(s, "(Array Int "), "Int") && !strings.Contains(s, "Slice") && !strings.Contains(s, "S_") {
		g.pristine[n] = true
		return
	}
	// otherwise remember at which references this version differs from its pristine ancestor: a load at
	// any other reference still reads an entry value
	if prev, ok := g.storedAt[old]; (ok || g.pristine[old]) && len(prev) < 8 {
		if pre := "(store " + old + " "; strings.HasPrefix(term, pre) {
			if ref := firstSexpr(term[len(pre):]); ref != "" {
				g.storedAt[n] = append(append([]string{}, prev...), ref)
			}
		}
	}
}

// the first balanced s-expression (or atom) of s
func firstSexpr(s string) string {
	depth := 0
	for i, ch := range s {
		switch ch {
		case '(':
			depth++
		case ')':
			depth--
			if depth == 0 {
				return s[:i+1]
			}
			if depth < 0 {
				return s[:i]
			}
		case ' ':
			if depth == 0 {
				return s[:i]
			}
		}
	}
	return ""
}

// the condition under which a load at reference r from version ver reads a value the function's entry
// state already held ("" when unknown)
func (g *Gen) entryValueCond(ver, r string) string {
	refs, ok := g.storedAt[ver]
	if !ok || len(refs) == 0 {
		return ""
	}
	var cs []string
	for _, x := range refs {
		cs = append(cs, fmt.Sprintf("(not (= %s %s))", r, x))
	}
	if len(cs) == 1 {
		return cs[0]
	}
	return "(and " + strings.Join(cs, " ") + ")"
}

// lvalue for pointer value p (static type *T)
func (g *Gen) lvalOf(p ssa.Value) *lval {
	if l, ok := g.fr.lv[p]; ok {
		return l
	}
	pt, ok := p.Type().Underlying().(*types.Pointer)
	if !ok {
		return nil
	}
	return &lval{kind: "heap", obj: true, ref: g.term(p), typ: pt.Elem()}
}

func (g *Gen) applyPath(v string, path []pathElem) string {
	for _, pe := range path {
		if pe.isIdx {
			v = fmt.Sprintf("(select %s %s)", v, pe.idx)
		} else {
			v = g.fieldSel(pe.st, pe.field, v)
		}
	}
	return v
}

func (g *Gen) updatePath(v string, path []pathElem, nv string) string {
	if len(path) == 0 {
		return nv
	}
	pe := path[0]
	if pe.isIdx {
		inner := g.updatePath(fmt.Sprintf("(select %s %s)", v, pe.idx), path[1:], nv)
		return fmt.Sprintf("(store %s %s %s)", v, pe.idx, inner)
	}
	st := pe.st.Underlying().(*types.Struct)
	var fs []string
	for i := 0; i < st.NumFields(); i++ {
		if i == pe.field {
			fs = append(fs, g.updatePath(g.fieldSel(pe.st, i, v), path[1:], nv))
		} else {
			fs = append(fs, g.fieldSel(pe.st, i, v))
		}
	}
	return g.mkStruct(pe.st, fs)
}

func (g *Gen) load(l *lval) string {
	if l.obj {
		return g.loadObj(l.ref, l.typ)
	}
	var root string
	if l.kind == "local" {
		root = g.heapGet(l.comp)
	} else {
		root = fmt.Sprintf("(select %s %s)", g.heapGet(l.comp), l.ref)
	}
	return g.applyPath(root, l.path)
}

func (g *Gen) store(l *lval, v string) {
	if l.obj {
		g.storeObj(l.ref, l.typ, v)
		return
	}
	if l.kind == "local" {
		root := g.heapGet(l.comp)
		g.setComp(l.comp, g.updatePath(root, l.path, v))
		return
	}
	h := g.heapGet(l.comp)
	root := fmt.Sprintf("(select %s %s)", h, l.ref)
	g.setComp(l.comp, fmt.Sprintf("(store %s %s %s)", h, l.ref, g.updatePath(root, l.path, v)))
}

// ---------- terms ----------

func (g *Gen) term(v ssa.Value) string {
	if t, ok := g.fr.val[v]; ok {
		return t
	}
	switch x := v.(type) {
	case *ssa.Const:
		return g.constTerm(x)
	case *ssa.Global:
		return g.globalRef(x)
	case *ssa.Function:
		t := g.funcRef(x)
		return t
	case *ssa.FreeVar:
		if t, ok := g.fr.fvs[x]; ok {
			return t
		}
	case *ssa.Builtin:
		return "0"
	}
	t := g.fresh("unk_"+v.Name(), g.sortOf(v.Type()))
	g.fr.val[v] = t
	g.note("unknown value %s %s", v.Name(), v.String())
	return t
}

func (g *Gen) funcRef(f *ssa.Function) string {
	name := "fnref_" + sanitize(shortFn(funcKey(f)))
	key := "fnref:" + name
	if !g.prelSeen[key] {
		g.prelSeen[key] = true
		g.decls = append(g.decls, fmt.Sprintf("(declare-const |%s| Int)", name))
		g.assumeGlobal(fmt.Sprintf("(> |%s| 0)", name))
	}
	return "|" + name + "|"
}

var globalIds = map[string]int{}

func (g *Gen) globalRef(x *ssa.Global) string {
	key := x.RelString(nil)
	id, ok := globalIds[key]
	if !ok {
		id = len(globalIds) + 1
		globalIds[key] = id
	}
	// globals live at distinct small positive refs 1..N (below refBound, distinct from each other)
	ref := fmt.Sprintf("%d", id)
	// package-level error sentinels (var ErrX = errors.New(...)): non-nil and pairwise distinct at entry
	if et := x.Type().(*types.Pointer).Elem(); types.TypeString(et, nil) == "error" && !g.prelSeen["errsentinel:"+key] {
		g.prelSeen["errsentinel:"+key] = true
		c, _ := g.cellComp(et)
		g.assumeGlobal(fmt.Sprintf("(= (select %s %s) %d)", g.entry[c], ref, 900000000+id))
		g.assumptions["package-level error sentinels (var Err... = errors.New(...)) are non-nil, pairwise distinct and never reassigned"] = true
	}
	return ref
}

func (g *Gen) constTerm(x *ssa.Const) string {
	t := x.Type()
	if x.Value == nil {
		return g.zeroValue(t)
	}
	switch x.Value.Kind() {
	case constant.Bool:
		if constant.BoolVal(x.Value) {
			return "true"
		}
		return "false"
	case constant.Int:
		bi, _ := new(big.Int).SetString(x.Value.ExactString(), 10)
		if bi == nil {
			bi = big.NewInt(0)
		}
		if isInteger(t) {
			return g.numBig(bi, t)
		}
		// e.g. float constant of integer value: opaque
		return g.fresh("const", g.sortOf(t))
	case constant.String:
		return g.stringConst(constant.StringVal(x.Value))
	}
	return g.fresh("const", g.sortOf(t))
}

var strIds = map[string]int{}

func (g *Gen) stringConst(s string) string {
	if len(s) == 0 {
		return g.nilSlice()
	}
	id, ok := strIds[s]
	if !ok {
		id = len(strIds) + 1
		strIds[s] = id
	}
	key := fmt.Sprintf("strconst:%d", id)
	name := fmt.Sprintf("|str!%d|", id)
	if !g.prelSeen[key] {
		g.prelSeen[key] = true
		g.decls = append(g.decls, fmt.Sprintf("(declare-const %s Slice)", name))
		base := 500000000 + id
		g.assumeGlobal(fmt.Sprintf("(= %s (mk-slice %d %s %s %s))", name, base, g.idx(0), g.idx(int64(len(s))), g.idx(int64(len(s)))))
		// distinct string constants have distinct contents (ids are per distinct literal text)
		g.assumeGlobal(fmt.Sprintf("(= %s (- %d))", g.mapKey(name, types.NewMap(types.Typ[types.String], types.Typ[types.Bool])), id))
		// content for short strings
		if len(s) <= 16 {
			c, _ := g.memComp(types.Typ[types.Uint8])
			for i := 0; i < len(s); i++ {
				g.assumeGlobal(fmt.Sprintf("(= (select (select %s %d) %s) %s)", g.entry[c], base, g.idx(int64(i)), g.num(int64(s[i]), types.Typ[types.Uint8])))
			}
		}
	}
	return name
}

// comparison helpers
func (g *Gen) le(a, b string, signed bool) string {
	if g.bv {
		if signed {
			return fmt.Sprintf("(bvsle %s %s)", a, b)
		}
		return fmt.Sprintf("(bvule %s %s)", a, b)
	}
	return fmt.Sprintf("(<= %s %s)", a, b)
}
func (g *Gen) lt(a, b string, signed bool) string {
	if g.bv {
		if signed {
			return fmt.Sprintf("(bvslt %s %s)", a, b)
		}
		return fmt.Sprintf("(bvult %s %s)", a, b)
	}
	return fmt.Sprintf("(< %s %s)", a, b)
}
func (g *Gen) addIdx(a, b string) string {
	if g.bv {
		return fmt.Sprintf("(bvadd %s %s)", a, b)
	}
	return fmt.Sprintf("(+ %s %s)", a, b)
}
// position of element i of a slice with offset off inside its backing array. Written with the
// function ix, axiomatised as off + i: the element terms (select row (ix off i)) then are patterns
// free of arithmetic, which E-matching handles reliably (with a bare (+ off i) inside the pattern the
// same goals took from 0.1 s to more than 20 s depending on the random seed).
func (g *Gen) elemIdx(off, i string) string {
	// bit-vector mode keeps bvadd: there the detour costs time (measured on C18: 16 s instead of 4 s
	// on the slowest goals) and index terms are not re-associated by the rewriter in the first place
	if g.bv || os.Getenv("GOVC_NOIX") != "" {
		return g.addIdx(off, i)
	}
	if !g.funDecl["ix"] {
		g.funDecl["ix"] = true
		so := g.idxSort()
		g.prel = append(g.prel, fmt.Sprintf("(declare-fun ix (%s %s) %s)", so, so, so))
		g.prel = append(g.prel, fmt.Sprintf("(assert (forall ((o %s) (i %s)) (! (= (ix o i) %s) :pattern ((ix o i)))))", so, so, g.addIdx("o", "i")))
	}
	return fmt.Sprintf("(ix %s %s)", off, i)
}

func (g *Gen) subIdx(a, b string) string {
	if g.bv {
		return fmt.Sprintf("(bvsub %s %s)", a, b)
	}
	return fmt.Sprintf("(- %s %s)", a, b)
}

// convert an integer SSA value to the index sort (int, 64-bit signed)
func (g *Gen) toIdx(v ssa.Value) string {
	t := g.term(v)
	if !g.bv {
		return t
	}
	return g.extTo64(t, v.Type())
}

func (g *Gen) extTo64(t string, ty types.Type) string {
	b, ok := ty.Underlying().(*types.Basic)
	if !ok {
		return t
	}
	n, s := intBits(b)
	if n == 64 || n == 0 {
		return t
	}
	if s {
		return fmt.Sprintf("((_ sign_extend %d) %s)", 64-n, t)
	}
	return fmt.Sprintf("((_ zero_extend %d) %s)", 64-n, t)
}

func (g *Gen) binop(x *ssa.BinOp) string {
	a, b := g.term(x.X), g.term(x.Y)
	t := x.X.Type()
	s := isSigned(t)
	switch x.Op {
	case token.EQL:
		return g.eqTerm(a, b, t)
	case token.NEQ:
		return fmt.Sprintf("(not %s)", g.eqTerm(a, b, t))
	}
	if isString(t) {
		switch x.Op {
		case token.ADD:
			r := g.fresh("strcat", "Slice")
			g.assumeAlways(fmt.Sprintf("(and %s (= (len %s) %s))", g.sliceWF(r, false), r, g.addIdx("(len "+a+")", "(len "+b+")")))
			return r
		}
		// ordering of strings: a strict total order on their content (lexicographic byte order is one; which one is
		// left open). strlt is uninterpreted over the content identities strkey(.)
		if x.Op == token.LSS || x.Op == token.GTR || x.Op == token.LEQ || x.Op == token.GEQ {
			sm := types.NewMap(types.Typ[types.String], types.Typ[types.Bool])
			ka, kb := g.mapKey(a, sm), g.mapKey(b, sm)
			if !g.funDecl["strlt"] {
				g.funDecl["strlt"] = true
				g.prel = append(g.prel, "(declare-fun strlt (Int Int) Bool)")
				g.assumeGlobal("(forall ((a Int) (b Int)) (! (and (not (and (strlt a b) (strlt b a))) (=> (not (= a b)) (or (strlt a b) (strlt b a))) (=> (= a b) (not (strlt a b)))) :pattern ((strlt a b))))")
			}
			switch x.Op {
			case token.LSS:
				return fmt.Sprintf("(strlt %s %s)", ka, kb)
			case token.GTR:
				return fmt.Sprintf("(strlt %s %s)", kb, ka)
			case token.LEQ:
				return fmt.Sprintf("(not (strlt %s %s))", kb, ka)
			default:
				return fmt.Sprintf("(not (strlt %s %s))", ka, kb)
			}
		}
		return g.fresh("strop", g.sortOf(x.Type()))
	}
	if !isInteger(t) {
		if isBool(t) {
			switch x.Op {
			case token.AND, token.LAND:
				return fmt.Sprintf("(and %s %s)", a, b)
			case token.OR, token.LOR:
				return fmt.Sprintf("(or %s %s)", a, b)
			}
		}
		g.note("opaque binop %s on %s", x.Op, t)
		return g.fresh("opaque_binop", g.sortOf(x.Type()))
	}
	switch x.Op {
	case token.LSS:
		return g.lt(a, b, s)
	case token.LEQ:
		return g.le(a, b, s)
	case token.GTR:
		return g.lt(b, a, s)
	case token.GEQ:
		return g.le(b, a, s)
	}
	return g.arith(x.Op, a, b, t, x.Y.Type(), x.Type(), true)
}

func (g *Gen) eqTerm(a, b string, t types.Type) string {
	if isString(t) {
		// string equality is content equality. Strings are immutable, so the content is a function of
		// the string value: strkey(v) stands for it (equal values => equal content; distinct constants
		// have distinct contents; nothing is known about other pairs), and so do the lengths agree.
		sm := types.NewMap(types.Typ[types.String], types.Typ[types.Bool])
		return fmt.Sprintf("(= %s %s)", g.mapKey(a, sm), g.mapKey(b, sm))
	}
	// NOTE arrays: whole-array SMT equality is STRONGER than Go's element-wise comparison (the SMT arrays
	// have entries outside 0..Len-1). As a branch condition this over-approximates the "unequal" branch
	// (sound); as a goal it can be unprovable -- harnesses compare element by element instead.
	return fmt.Sprintf("(= %s %s)", a, b)
}

func (g *Gen) strMem() string {
	c, _ := g.memComp(types.Typ[types.Uint8])
	g.needStreq()
	return g.heapGet(c)
}

func (g *Gen) needStreq() {
	if g.prelSeen["streq"] {
		return
	}
	g.prelSeen["streq"] = true
	c, _ := g.memComp(types.Typ[types.Uint8])
	ms := g.comps[c]
	idx := g.idxSort()
	var body string
	if g.bv {
		body = fmt.Sprintf("(and (= (len a) (len b)) (forall ((i %s)) (=> (and (bvsle (_ bv0 64) i) (bvslt i (len a))) (= (select (select ma (base a)) (bvadd (off a) i)) (select (select mb (base b)) (bvadd (off b) i))))))", idx)
	} else {
		body = fmt.Sprintf("(and (= (len a) (len b)) (forall ((i %s)) (=> (and (<= 0 i) (< i (len a))) (= (select (select ma (base a)) (+ (off a) i)) (select (select mb (base b)) (+ (off b) i))))))", idx)
	}
	g.prel = append(g.prel, fmt.Sprintf("(define-fun streq ((a Slice) (b Slice) (ma %s) (mb %s)) Bool %s)", ms, ms, body))
}

// integer arithmetic on operands of Go type t (result type rt); obligations for div by zero when ob is set
func (g *Gen) arith(op token.Token, a, b string, t, yt, rt types.Type, ob bool) string {
	s := isSigned(t)
	if g.bv {
		m := map[token.Token]string{token.ADD: "bvadd", token.SUB: "bvsub", token.MUL: "bvmul", token.AND: "bvand", token.OR: "bvor", token.XOR: "bvxor"}[op]
		if m != "" {
			return fmt.Sprintf("(%s %s %s)", m, a, b)
		}
		switch op {
		case token.QUO, token.REM:
			if ob {
				g.safety("divzero", fmt.Sprintf("(not (= %s %s))", b, g.num(0, t)), "division by zero")
			}
			var o string
			switch {
			case op == token.QUO && s:
				o = "bvsdiv"
			case op == token.QUO:
				o = "bvudiv"
			case s:
				o = "bvsrem"
			default:
				o = "bvurem"
			}
			return fmt.Sprintf("(%s %s %s)", o, a, b)
		case token.SHL, token.SHR:
			nb := bitsOf(t)
			cb := bitsOf(yt)
			cnt := b
			if isSigned(yt) && ob {
				g.safety("shift", fmt.Sprintf("(bvsge %s %s)", b, g.num(0, yt)), "negative shift count")
			}
			if cb < nb {
				cnt = fmt.Sprintf("((_ zero_extend %d) %s)", nb-cb, b)
			} else if cb > nb {
				cnt = fmt.Sprintf("(ite (bvuge %s (_ bv%d %d)) (_ bv%d %d) ((_ extract %d 0) %s))", b, nb, cb, nb, nb, nb-1, b)
			}
			if op == token.SHL {
				return fmt.Sprintf("(bvshl %s %s)", a, cnt)
			}
			if s {
				return fmt.Sprintf("(bvashr %s %s)", a, cnt)
			}
			return fmt.Sprintf("(bvlshr %s %s)", a, cnt)
		case token.AND_NOT:
			return fmt.Sprintf("(bvand %s (bvnot %s))", a, b)
		}
	} else {
		switch op {
		case token.ADD:
			return g.wrap(fmt.Sprintf("(+ %s %s)", a, b), rt)
		case token.SUB:
			return g.wrap(fmt.Sprintf("(- %s %s)", a, b), rt)
		case token.MUL:
			return g.wrap(fmt.Sprintf("(* %s %s)", a, b), rt)
		case token.QUO:
			if ob {
				g.safety("divzero", fmt.Sprintf("(not (= %s 0))", b), "division by zero")
			}
			if s {
				return g.wrap(fmt.Sprintf("(tdiv %s %s)", a, b), rt)
			}
			return fmt.Sprintf("(div %s %s)", a, b)
		case token.REM:
			if ob {
				g.safety("divzero", fmt.Sprintf("(not (= %s 0))", b), "division by zero")
			}
			if s {
				return fmt.Sprintf("(trem %s %s)", a, b)
			}
			return fmt.Sprintf("(mod %s %s)", a, b)
		case token.SHL, token.SHR:
			// shift by a constant
			if k, ok := parseSmallInt(b); ok && k < 256 {
				if isSigned(yt) && k < 0 {
					break
				}
				if op == token.SHL {
					return g.wrap(fmt.Sprintf("(* %s %s)", a, pow2(int(k))), rt)
				}
				return fmt.Sprintf("(div %s %s)", a, pow2(int(k)))
			}
			// shift by a variable count: x << n == wrap(x * 2^n), x >> n == floor(x / 2^n), with the
			// uninterpreted pow2 the specifications use; a negative signed count panics in Go
			g.needPow2()
			if isSigned(yt) && ob {
				g.safety("shift", fmt.Sprintf("(<= 0 %s)", b), "negative shift count")
			}
			if op == token.SHL {
				return g.wrap(fmt.Sprintf("(* %s (pow2 %s))", a, b), rt)
			}
			return fmt.Sprintf("(div %s (pow2 %s))", a, b)
		case token.AND:
			// x & (2^k-1)
			if k, ok := parseBigInt(b); ok {
				k1 := new(big.Int).Add(k, big.NewInt(1))
				if k.Sign() >= 0 && new(big.Int).And(k1, k).Sign() == 0 && !s {
					return fmt.Sprintf("(mod %s %s)", a, k1.String())
				}
			}
		}
		// bitwise operators on mathematical integers: uninterpreted functions over the infinite
		// two's-complement representation (the same functions the specifications use). For operands
		// within a machine type's range the machine operation IS that function (signed types; unsigned
		// types likewise for and/or/xor of non-negative values).
		switch op {
		case token.AND, token.OR, token.XOR:
			fn := map[token.Token]string{token.AND: "bitand", token.OR: "bitor", token.XOR: "bitxor"}[op]
			g.needBitFns()
			r := g.define("bitop", "Int", fmt.Sprintf("(%s %s %s)", fn, a, b))
			if c := g.typeInv(r, rt, false); c != "true" {
				g.assumeAlways(c)
			}
			return r
		}
	}
	g.note("opaque arithmetic %s in %s mode", op, map[bool]string{true: "bv", false: "int"}[g.bv])
	r := g.fresh("opaque_arith", g.sortOf(rt))
	if c := g.typeInv(r, rt, false); c != "true" {
		g.assumeAlways(c)
	}
	return r
}

func parseSmallInt(s string) (int64, bool) {
	var v int64
	if _, err := fmt.Sscanf(s, "%d", &v); err == nil && fmt.Sprintf("%d", v) == s {
		return v, true
	}
	return 0, false
}
func parseBigInt(s string) (*big.Int, bool) {
	v, ok := new(big.Int).SetString(s, 10)
	return v, ok
}

func (g *Gen) convert(x *ssa.Convert) string {
	a := g.term(x.X)
	ft, tt := x.X.Type(), x.Type()
	if isInteger(ft) && isInteger(tt) {
		return g.convInt(a, ft, tt)
	}
	fs, ts := g.sortOf(ft), g.sortOf(tt)
	if fs == "Slice" && ts == "Slice" {
		// string <-> []byte: a copy. Fresh base with identical content.
		return g.copySlice(a, types.Typ[types.Uint8])
	}
	if isInteger(ft) && isString(tt) {
		r := g.fresh("runestr", "Slice")
		g.assumeAlways(g.sliceWF(r, false))
		return r
	}
	g.note("opaque conversion %s -> %s", ft, tt)
	return g.fresh("conv", ts)
}

func (g *Gen) convInt(a string, ft, tt types.Type) string {
	if !g.bv {
		fb, fs := intBits(ft.Underlying().(*types.Basic))
		tb, ts := intBits(tt.Underlying().(*types.Basic))
		if tb > fb && (fs == ts || !fs) || (tb == fb && fs == ts) {
			return a
		}
		return g.wrap(a, tt)
	}
	fb, fs := intBits(ft.Underlying().(*types.Basic))
	tb, _ := intBits(tt.Underlying().(*types.Basic))
	if tb == fb {
		return a
	}
	if tb < fb {
		return fmt.Sprintf("((_ extract %d 0) %s)", tb-1, a)
	}
	if fs {
		return fmt.Sprintf("((_ sign_extend %d) %s)", tb-fb, a)
	}
	return fmt.Sprintf("((_ zero_extend %d) %s)", tb-fb, a)
}

// a fresh slice with the same length and contents as s (elements of type et)
func (g *Gen) copySlice(s string, et types.Type) string {
	c, inner := g.memComp(et)
	r := g.fresh("copy", "Slice")
	g.nfresh++
	base := g.newRefNumeral()
	g.assumeAlways(fmt.Sprintf("(= %s (mk-slice (ite (= (len %s) %s) 0 %s) %s (len %s) (len %s)))", r, s, g.idx(0), base, g.idx(0), s, s))
	h := g.heapGet(c)
	arr := g.fresh("copyarr", inner)
	i := "i"
	g.assumeAlways(fmt.Sprintf("(forall ((%s %s)) (! (=> (and %s %s) (= (select %s %s) (select (select %s (base %s)) %s))) :pattern ((select %s %s))))",
		i, g.idxSort(), g.le(g.idx(0), i, true), g.lt(i, "(len "+s+")", true), arr, i, h, s, g.elemIdx("(off "+s+")", i), arr, i))
	g.setComp(c, fmt.Sprintf("(store %s %s %s)", h, base, arr))
	return r
}

// ---------- loops / CFG ----------

type loopInfo struct {
	headers []*ssa.BasicBlock
	back    map[[2]int]bool
	body    map[*ssa.BasicBlock]map[*ssa.BasicBlock]bool
	ord     map[*ssa.BasicBlock]int // 1-based source-order ordinal
}

func loopsOf(fn *ssa.Function) *loopInfo {
	li := &loopInfo{back: map[[2]int]bool{}, body: map[*ssa.BasicBlock]map[*ssa.BasicBlock]bool{}, ord: map[*ssa.BasicBlock]int{}}
	for _, b := range fn.Blocks {
		for _, s := range b.Succs {
			if s.Dominates(b) {
				li.back[[2]int{b.Index, s.Index}] = true
				if li.body[s] == nil {
					li.body[s] = map[*ssa.BasicBlock]bool{s: true}
					li.headers = append(li.headers, s)
				}
				stack := []*ssa.BasicBlock{b}
				for len(stack) > 0 {
					n := stack[len(stack)-1]
					stack = stack[:len(stack)-1]
					if li.body[s][n] {
						continue
					}
					li.body[s][n] = true
					stack = append(stack, n.Preds...)
				}
			}
		}
	}
	pos := func(h *ssa.BasicBlock) int {
		// position of the loop: smallest valid position among instructions of its body
		best := -1
		for b := range li.body[h] {
			for _, in := range b.Instrs {
				if in.Pos().IsValid() {
					o := fn.Prog.Fset.Position(in.Pos()).Offset
					if best < 0 || o < best {
						best = o
					}
				}
			}
		}
		return best
	}
	sort.Slice(li.headers, func(i, j int) bool {
		pi, pj := pos(li.headers[i]), pos(li.headers[j])
		if pi != pj {
			return pi < pj
		}
		return li.headers[i].Index < li.headers[j].Index
	})
	for i, h := range li.headers {
		li.ord[h] = i + 1
	}
	return li
}

func topo(fn *ssa.Function, back map[[2]int]bool) []*ssa.BasicBlock {
	indeg := map[*ssa.BasicBlock]int{}
	for _, b := range fn.Blocks {
		for _, s := range b.Succs {
			if !back[[2]int{b.Index, s.Index}] {
				indeg[s]++
			}
		}
	}
	var order, q []*ssa.BasicBlock
	q = append(q, fn.Blocks[0])
	if fn.Recover != nil && indeg[fn.Recover] == 0 {
		// recover block is not reachable by normal edges; skip
	}
	for len(q) > 0 {
		b := q[0]
		q = q[1:]
		order = append(order, b)
		for _, s := range b.Succs {
			if back[[2]int{b.Index, s.Index}] {
				continue
			}
			indeg[s]--
			if indeg[s] == 0 {
				q = append(q, s)
			}
		}
	}
	return order
}

func allocEscapes(a *ssa.Alloc) bool {
	var check func(v ssa.Value, depth int) bool
	check = func(v ssa.Value, depth int) bool {
		refs := v.Referrers()
		if refs == nil {
			return true
		}
		for _, r := range *refs {
			switch u := r.(type) {
			case *ssa.UnOp:
				if u.Op != token.MUL {
					return true
				}
			case *ssa.Store:
				if u.Val == v {
					return true
				}
			case *ssa.FieldAddr:
				if check(u, depth+1) {
					return true
				}
			case *ssa.IndexAddr:
				if u.X != v {
					return true
				}
				if check(u, depth+1) {
					return true
				}
			case *ssa.DebugRef:
			default:
				return true
			}
		}
		return false
	}
	return check(a, 0)
}

func mergeIte(conds, vals []string) string {
	t := ""
	for i := len(vals) - 1; i >= 0; i-- {
		if t == "" {
			t = vals[i]
		} else if vals[i] != t {
			t = fmt.Sprintf("(ite %s %s %s)", conds[i], vals[i], t)
		}
	}
	return t
}

func newFrame(fn *ssa.Function, c *Contract) *frame {
	return &frame{fn: fn, c: c, val: map[ssa.Value]string{}, lv: map[ssa.Value]*lval{}, clo: map[ssa.Value]*closure{}, tuple: map[ssa.Value][]string{},
		heap: map[*ssa.BasicBlock]map[string]string{}, reach: map[*ssa.BasicBlock]string{}, edge: map[[2]int]string{}, named: map[string]ssa.Value{},
		params: map[string]tvT{}, fvs: map[*ssa.FreeVar]string{}, localAlloc: map[*ssa.Alloc]bool{}, loopK: map[*ssa.BasicBlock]int{}, callOrd: map[string]int{}}
}

// runFrame executes the blocks of g.fr.fn symbolically. Entry reach/heap are taken from g.curR / g.cur.
func (g *Gen) runFrame() {
	fr := g.fr
	fn := fr.fn
	li := loopsOf(fn)
	fr.loopK = li.ord
	g.structuralObs(fn, li)
	order := topo(fn, li.back)
	entryCur := g.cur
	for _, b := range order {
		if b.Index == 0 {
			g.cur = copyMap(entryCur)
			fr.reach[b] = g.curR
		} else {
			var ins []string
			var preds []*ssa.BasicBlock
			for _, p := range b.Preds {
				if li.back[[2]int{p.Index, b.Index}] {
					continue
				}
				e, ok := fr.edge[[2]int{p.Index, b.Index}]
				if !ok {
					continue
				}
				ins = append(ins, e)
				preds = append(preds, p)
			}
			if len(ins) == 0 {
				fr.reach[b] = "false"
				g.cur = map[string]string{}
			} else if len(ins) == 1 {
				fr.reach[b] = ins[0]
				g.cur = copyMap(fr.heap[preds[0]])
			} else {
				fr.reach[b] = g.define(fmt.Sprintf("reach_b%d", b.Index), "Bool", "(or "+strings.Join(ins, " ")+")")
				names := map[string]bool{}
				for _, p := range preds {
					for n := range fr.heap[p] {
						names[n] = true
					}
				}
				g.cur = map[string]string{}
				for _, n := range sortedBoolKeys(names) {
					var vals []string
					allPristine := true
					for _, p := range preds {
						hv, ok := fr.heap[p][n]
						if !ok {
							hv = g.entry[n]
						}
						if !g.pristine[hv] {
							allPristine = false
						}
						vals = append(vals, hv)
					}
					m := mergeIte(ins, vals)
					if strings.HasPrefix(m, "(ite ") {
						// a named version for the merged component: instantiation patterns must not contain `ite`
						// (the solvers reject such patterns), and contract clauses stated at or after the join
						// mention the component's current version in their patterns
						m = g.define("H_"+n+"@join", g.comps[n], m)
					}
					if allPristine {
						g.pristine[m] = true
					}
					g.cur[n] = m
				}
			}
			// phis (non loop-header)
			if li.ord[b] == 0 || g.unrolling(b) {
				for _, in := range b.Instrs {
					phi, ok := in.(*ssa.Phi)
					if !ok {
						break
					}
					var vals []string
					for i := range preds {
						for k, pp := range b.Preds {
							if pp == preds[i] {
								vals = append(vals, g.term(phi.Edges[k]))
								break
							}
						}
					}
					if len(vals) == 0 {
						fr.val[phi] = g.fresh("deadphi", g.sortOf(phi.Type()))
					} else {
						fr.val[phi] = g.define("phi_"+phi.Comment, g.sortOf(phi.Type()), mergeIte(ins, vals))
					}
					if phi.Comment != "" {
						fr.setNamed(phi.Comment, phi, phi.Block())
					}
					// closures through phis
					for _, e := range phi.Edges {
						if c, ok := fr.clo[e]; ok {
							fr.clo[phi] = c
						}
					}
				}
			}
		}
		g.curR = fr.reach[b]
		fr.curBlock = b
		if k := li.ord[b]; k > 0 {
			if g.headStart == nil {
				g.headStart = map[*ssa.BasicBlock]int{}
			}
			g.headStart[b] = len(g.defs)
		}
		// inside the body of a loop declared `forgets earlier invariants`: hide the quantified invariants and
		// proof steps that were established before that loop's head (innermost such loop)
		hideFor := func(skipHead *ssa.BasicBlock) []int {
			if fr.c == nil || fr.inl {
				return g.baseHide
			}
			best := -1
			for h, body := range li.body {
				lc := fr.c.Loops[li.ord[h]]
				if lc == nil || !lc.Forgets || !body[b] || h == skipHead {
					continue
				}
				if st, ok := g.headStart[h]; ok && st > best {
					best = st
				}
			}
			out := append([]int{}, g.baseHide...)
			if best >= 0 {
				for _, i := range g.invIdx {
					if i < best && i < len(g.defs) && strings.Contains(g.defs[i], "(forall ") {
						out = append(out, i)
					}
				}
			}
			return out
		}
		if k := li.ord[b]; k > 0 {
			g.curHide = hideFor(b) // the loop's own entry obligations are proved from what came before
			g.loopHead(b, k, li)
		}
		g.curHide = hideFor(nil)
		for _, in := range b.Instrs {
			g.instr(in, li)
		}
		fr.heap[b] = g.cur
	}
}

// obligations decided on the shape of the code alone (no symbolic execution)
func (g *Gen) structuralObs(fn *ssa.Function, li *loopInfo) {
	fr := g.fr
	if fr.c != nil && fr.c.EveryLoopIterates && g.depth == 0 {
		// every for/range statement of the source must be a loop of the control-flow graph: a statement
		// whose body always leaves it (`for ... { return f(x) }`) examines its first element only
		nAst := 0
		if syn := fn.Syntax(); syn != nil {
			ast.Inspect(syn, func(n ast.Node) bool {
				switch n.(type) {
				case *ast.FuncLit:
					return false
				case *ast.ForStmt, *ast.RangeStmt:
					nAst++
				}
				return true
			})
		}
		save := g.curR
		g.curR = "true"
		p := "true"
		if nAst > len(li.headers) {
			p = "false"
		}
		g.ob("every-loop-iterates", "", p, fmt.Sprintf("the source has %d for/range statements, the control-flow graph %d loops: a loop body that always leaves the loop looks at its first element only", nAst, len(li.headers)))
		g.curR = save
	}
	if fr.c != nil && fr.c.NoMapIter && g.depth == 0 {
		// C15-style order-insensitivity: no iteration over a Go map anywhere in this function or in the functions
		// of its own package it reaches (a callee declared `deterministic` / `no map iteration` is trusted to
		// its own check); callees in other packages are assumed not to leak a map's iteration order
		var bad []string
		seenFn := map[*ssa.Function]bool{}
		var scan func(f *ssa.Function, depth int)
		scan = func(f *ssa.Function, depth int) {
			if seenFn[f] {
				return
			}
			seenFn[f] = true
			for _, b := range f.Blocks {
				for _, in := range b.Instrs {
					switch x := in.(type) {
					case *ssa.Range:
						if _, isMap := x.X.Type().Underlying().(*types.Map); isMap {
							bad = append(bad, "range over a map in "+shortFn(funcKey(f)))
						}
					case *ssa.Go:
						bad = append(bad, "go statement in "+shortFn(funcKey(f)))
					case *ssa.Select:
						bad = append(bad, "select in "+shortFn(funcKey(f)))
					case ssa.CallInstruction:
						cc := x.Common()
						if _, ok := cc.Value.(*ssa.Builtin); ok {
							continue
						}
						callee := cc.StaticCallee()
						if callee == nil {
							continue // function values / interface methods: outside this structural check (listed)
						}
						if ct := g.contractFor(callee, cc); ct != nil && (ct.Deterministic || ct.NoMapIter) {
							continue
						}
						if callee.Pkg != nil && fn.Pkg != nil && callee.Pkg == fn.Pkg && callee.Blocks != nil {
							if depth < 6 {
								scan(callee, depth+1)
							} else {
								bad = append(bad, "call chain too deep at "+shortFn(funcKey(callee)))
							}
						}
					}
				}
			}
		}
		scan(fn, 0)
		g.assumptions["functions of other packages, function values and interface methods called from "+g.fnName+" do not expose a map's iteration order"] = true
		save := g.curR
		g.curR = "true"
		p := "true"
		if len(bad) > 0 {
			p = "false"
		}
		g.ob("no-map-iteration", "", p, "no iteration over a Go map in the function or the same-package functions it reaches; offending: "+strings.Join(uniq(bad), "; "))
		g.curR = save
	}
	if fr.c != nil && fr.c.Deterministic && g.depth == 0 {
		// the results are a function of the arguments and the heap: nothing in the body observes Go's map
		// iteration order, a channel, the scheduler, or a callee not itself declared deterministic
		var bad []string
		var scan func(f *ssa.Function, depth int)
		scan = func(f *ssa.Function, depth int) {
			for _, b := range f.Blocks {
				for _, in := range b.Instrs {
					switch x := in.(type) {
					case *ssa.Range:
						if _, isMap := x.X.Type().Underlying().(*types.Map); isMap {
							if depth == 0 && fr.c.DetReason != "" {
								g.assumptions["map iteration in "+g.fnName+" is order-insensitive: "+fr.c.DetReason] = true
							} else {
								bad = append(bad, "range over a map")
							}
						}
					case *ssa.Go:
						bad = append(bad, "go statement")
					case *ssa.Select:
						bad = append(bad, "select")
					case *ssa.Send:
						bad = append(bad, "channel send")
					case *ssa.UnOp:
						if x.Op == token.ARROW {
							bad = append(bad, "channel receive")
						}
					case ssa.CallInstruction:
						cc := x.Common()
						if _, ok := cc.Value.(*ssa.Builtin); ok {
							continue
						}
						callee := cc.StaticCallee()
						var ct *Contract
						if callee != nil {
							ct = g.contractFor(callee, cc)
						}
						if ct != nil && ct.Deterministic {
							continue
						}
						// a callee that is seen through (declared `inline`, or a small helper) is judged by its body
						if callee != nil && callee.Blocks != nil && depth < 3 && (ct == nil || ct.Inline) && g.inlineOK(callee, ct) {
							scan(callee, depth+1)
							continue
						}
						name := "a function value / interface method"
						if callee != nil {
							name = shortFn(funcKey(callee))
						}
						bad = append(bad, "call of "+name+" (not declared deterministic)")
					}
				}
			}
		}
		scan(fn, 0)
		save := g.curR
		g.curR = "true"
		p := "true"
		if len(bad) > 0 {
			p = "false"
		}
		g.ob("deterministic", "", p, "results are a function of arguments and heap only; offending: "+strings.Join(uniq(bad), "; "))
		g.curR = save
	}
}

func (g *Gen) unrolling(b *ssa.BasicBlock) bool { return false }

func copyMap(m map[string]string) map[string]string {
	r := make(map[string]string, len(m))
	for k, v := range m {
		r[k] = v
	}
	return r
}

func sortedBoolKeys(m map[string]bool) []string {
	var ks []string
	for k := range m {
		ks = append(ks, k)
	}
	sort.Strings(ks)
	return ks
}

// loop head: check invariant on entry edges, havoc, assume invariant
func (g *Gen) loopHead(b *ssa.BasicBlock, k int, li *loopInfo) {
	fr := g.fr
	var lc *LoopC
	if fr.c != nil {
		lc = fr.c.Loops[k]
	}
	if lc == nil {
		lc = &LoopC{}
		if !g.abstract {
			g.note("loop %d of %s has no invariant (treated as `true`)", k, shortFn(funcKey(fr.fn)))
		}
	}
	if os.Getenv("GOVC_LOOPS") != "" && !fr.inl {
		var names []string
		for _, in := range b.Instrs {
			if phi, ok := in.(*ssa.Phi); ok {
				names = append(names, phi.Comment)
			}
		}
		fmt.Fprintf(os.Stderr, "LOOP %d of %s carries %v\n", k, g.fnName, names)
	}
	if len(lc.Vars) > 0 && !fr.inl {
		// the contract says which source variables this loop carries: if the ordinal now denotes another
		// loop (statements were added, removed or reordered), the invariants below are not about it
		have := map[string]bool{"rangeindex": true}
		for _, in := range b.Instrs {
			if phi, ok := in.(*ssa.Phi); ok {
				have[phi.Comment] = true
			}
		}
		var missing []string
		for _, v := range lc.Vars {
			if !have[v] {
				missing = append(missing, v)
			}
		}
		if len(missing) > 0 {
			save := g.curR
			g.curR = "true"
			g.ob("loop-binding", fmt.Sprintf("loop%d", k), "false", fmt.Sprintf("loop %d of the function does not carry the variable(s) %s its contract names: the invariants were written for another loop", k, strings.Join(missing, ", ")))
			g.curR = save
		}
	}
	// entry obligations
	for _, p := range b.Preds {
		if li.back[[2]int{p.Index, b.Index}] {
			continue
		}
		e, ok := fr.edge[[2]int{p.Index, b.Index}]
		if !ok {
			continue
		}
		saveCur, saveR := g.cur, g.curR
		g.cur = copyMap(fr.heap[p])
		g.curR = e
		env := g.loopEnv(b, p)
		for i, inv := range lc.Inv {
			t := g.transBool(inv.E, env)
			g.ob(fmt.Sprintf("loop%d-entry", k), invLabel(inv, i), t, inv.E.String())
			g.assumeProved(g.curR, t)
		}
		g.cur, g.curR = saveCur, saveR
	}
	// havoc phis
	for _, in := range b.Instrs {
		phi, ok := in.(*ssa.Phi)
		if !ok {
			break
		}
		t := g.fresh(fmt.Sprintf("l%d_%s", k, phi.Comment), g.sortOf(phi.Type()))
		if c := g.typeInv(t, phi.Type(), false); c != "true" {
			g.assumeAlways(c)
		}
		// a loop-carried reference denotes something that exists when the head is reached: never one of
		// the objects the body is about to allocate
		switch phi.Type().Underlying().(type) {
		case *types.Pointer, *types.Map, *types.Chan:
			if g.sortOf(phi.Type()) == "Int" {
				g.assumeAlways(g.beforeHere(t))
			}
		case *types.Slice:
			g.assumeAlways(g.beforeHere(fmt.Sprintf("(base %s)", t)))
		}
		fr.val[phi] = t
		if phi.Comment != "" {
			fr.setNamed(phi.Comment, phi, phi.Block())
		}
		// counters that start at a constant c and are only ever incremented by a positive constant
		// (the index of a range loop: -1, +1 per iteration) stay >= c: a structural inductive fact
		if lo, bound, ok := rangeCounter(phi); ok && isInteger(phi.Type()) && isSigned(phi.Type()) {
			g.assumeAlways(g.le(g.num(lo, phi.Type()), t, true))
			if bound != nil {
				// phi < n, or phi is still the start value (n <= start+1)
				if bt, have := fr.val[bound]; have {
					g.assumeAlways(fmt.Sprintf("(or %s (= %s %s))", g.lt(t, bt, true), t, g.num(lo, phi.Type())))
				} else if _, isConst := bound.(*ssa.Const); isConst {
					g.assumeAlways(fmt.Sprintf("(or %s (= %s %s))", g.lt(t, g.term(bound), true), t, g.num(lo, phi.Type())))
				}
			}
		}
	}
	// havoc heap components modified in the loop body
	for _, n := range sortedBoolKeys(g.modifiedIn(li.body[b])) {
		if s, ok := g.comps[n]; ok {
			if refs, ok := g.lastPrecise[n]; ok && strings.HasPrefix(s, "(Array Int ") {
				// every write to this component in the loop goes to an object fixed before the loop:
				// only those objects' contents are unknown at the loop head
				inner := s[len("(Array Int ") : len(s)-1]
				h := g.heapGet(n)
				for _, r := range refs {
					hv := g.fresh("hv_"+n+"@loop", inner)
					h = fmt.Sprintf("(store %s %s %s)", h, r, hv)
					// what the rewritten row holds exists when the head is reached (see loopHeadRefsAxiom)
					switch g.refComps[n] {
					case "field":
						g.assumeAlways(g.beforeHere(hv))
					case "slicefield":
						g.assumeAlways(g.beforeHere(fmt.Sprintf("(base %s)", hv)))
					case "mem":
						g.assumeGlobal(fmt.Sprintf("(forall ((i %s)) (! %s :pattern ((select %s i))))", g.idxSort(), g.beforeHere(fmt.Sprintf("(select %s i)", hv)), hv))
					case "slicemem":
						g.assumeGlobal(fmt.Sprintf("(forall ((i %s)) (! %s :pattern ((select %s i))))", g.idxSort(), g.beforeHere(fmt.Sprintf("(base (select %s i))", hv)), hv))
					default:
						if kind := g.refComps[n]; strings.HasPrefix(kind, "mapval:") {
							g.assumeGlobal(fmt.Sprintf("(forall ((k %s)) (! %s :pattern ((select %s k))))", strings.TrimPrefix(kind, "mapval:"), g.beforeHere(fmt.Sprintf("(select %s k)", hv)), hv))
						}
					}
				}
				g.cur[n] = g.define("H_"+n+"@loop", s, h)
				continue
			}
			prev := g.heapGet(n)
			nv := g.fresh("H_"+n+"@loop", s)
			if g.nfresh == 0 && g.ncallFresh == 0 {
				// nothing was allocated before the loop: every object the loop-head heap can mention is an
				// entry object (objects of earlier iterations are renamed into that range by the havoc)
				g.pristine[nv] = true
			}
			g.loopHeadRefsAxiom(n, nv)
			g.cur[n] = nv
			inAssigns := false
			if lc.KeepsOld && fr.c != nil {
				// components the function may write on objects of its caller (its `assigns`) are not
				// covered by `keeps old objects`: invariants speak about them
				for _, ac := range g.assignComps(fr.c) {
					if ac == n {
						inAssigns = true
					}
				}
			}
			if lc.KeepsOld && !inAssigns && strings.HasPrefix(s, "(Array Int ") && !strings.HasPrefix(n, "GH_") && !strings.HasPrefix(n, "GS_") && !strings.HasPrefix(n, "L_") {
				// `keeps old objects`: assumed here relative to the heap before the loop, proved at every back edge
				g.assumeAlways(fmt.Sprintf("(forall ((r Int)) (! (=> (and (<= 0 r) (< r %s)) (= (select %s r) (select %s r))) :pattern ((select %s r))))", refBound, nv, prev, nv))
				if fr.loopKeep == nil {
					fr.loopKeep = map[*ssa.BasicBlock]map[string]string{}
				}
				if fr.loopKeep[b] == nil {
					fr.loopKeep[b] = map[string]string{}
				}
				fr.loopKeep[b][n] = nv
			} else if refs, whole := g.loopFrameTargets(n); lc.KeepsOld && inAssigns && !whole && strings.HasPrefix(s, "(Array Int ") && !strings.HasPrefix(n, "GH_") && !strings.HasPrefix(n, "GS_") && !strings.HasPrefix(n, "L_") {
				// a component the function may write: `keeps old objects` then means the function's own frame --
				// objects of the caller other than the `assigns` targets (evaluated at function entry) keep
				// their contents in the loop; assumed here relative to the heap before the loop, proved at
				// every back edge
				conds := []string{"(<= 0 r)", fmt.Sprintf("(< r %s)", refBound)}
				for _, t := range refs {
					conds = append(conds, fmt.Sprintf("(not (= r %s))", t))
				}
				g.assumeAlways(fmt.Sprintf("(forall ((r Int)) (! (=> (and %s) (= (select %s r) (select %s r))) :pattern ((select %s r))))", strings.Join(conds, " "), nv, prev, nv))
				if fr.loopKeep == nil {
					fr.loopKeep = map[*ssa.BasicBlock]map[string]string{}
				}
				if fr.loopKeep[b] == nil {
					fr.loopKeep[b] = map[string]string{}
				}
				fr.loopKeep[b][n] = nv
				if fr.loopKeepExcl == nil {
					fr.loopKeepExcl = map[*ssa.BasicBlock]map[string][]string{}
				}
				if fr.loopKeepExcl[b] == nil {
					fr.loopKeepExcl[b] = map[string][]string{}
				}
				fr.loopKeepExcl[b][n] = refs
			} else if g.lastFreshOnly[n] && strings.HasPrefix(s, "(Array Int ") {
				// every write to this component in the loop body goes to an object allocated in the body:
				// the objects that existed before the loop keep their contents
				g.assumeAlways(fmt.Sprintf("(forall ((r Int)) (! (=> (and (<= 0 r) (< r %s)) (= (select %s r) (select %s r))) :pattern ((select %s r))))", refBound, nv, prev, nv))
			}
		}
	}
	env := g.curEnv()
	if env.old == nil {
		env.oldEntry = true // old(e) in an invariant: e in the function's entry state
	}
	for _, inv := range lc.Inv {
		t := g.transBool(inv.E, env)
		g.invIdx = append(g.invIdx, len(g.defs))
		g.assume(g.curR, t)
	}
	if lc.Decreases != nil {
		d := g.trans(lc.Decreases, env)
		g.fr.val[decKey{b}] = g.define(fmt.Sprintf("loop%d_measure", k), g.sortOfTv(d), d.t)
	}
}

type decKey struct{ b *ssa.BasicBlock }

func (decKey) Name() string                  { return "dec" }
func (decKey) String() string                { return "dec" }
func (decKey) Type() types.Type              { return types.Typ[types.Int] }
func (decKey) Parent() *ssa.Function         { return nil }
func (decKey) Referrers() *[]ssa.Instruction { return nil }
func (decKey) Pos() token.Pos                { return token.NoPos }

func invLabel(c *Clause, i int) string {
	if c.Label != "" {
		return c.Label
	}
	return fmt.Sprintf("%d", i+1)
}

func (g *Gen) backEdgeObs(b *ssa.BasicBlock, li *loopInfo) {
	fr := g.fr
	for _, s := range b.Succs {
		if !li.back[[2]int{b.Index, s.Index}] {
			continue
		}
		k := li.ord[s]
		var lc *LoopC
		if fr.c != nil {
			lc = fr.c.Loops[k]
		}
		if lc == nil {
			continue
		}
		save := g.curR
		g.curR = fr.edge[[2]int{b.Index, s.Index}]
		env := g.loopEnv(s, b)
		for i, inv := range lc.Inv {
			t := g.transBool(inv.E, env)
			g.ob(fmt.Sprintf("loop%d-preserve", k), invLabel(inv, i), t, inv.E.String())
			g.assumeProved(g.curR, t)
		}
		for _, n := range sortedKeys(fr.loopKeep[s]) {
			sk := g.fresh("keep_r", "Int")
			excl := ""
			for _, t := range fr.loopKeepExcl[s][n] {
				excl += fmt.Sprintf(" (not (= %s %s))", sk, t)
			}
			g.ob(fmt.Sprintf("loop%d-keeps-old", k), n, fmt.Sprintf("(=> (and (< 0 %s) (< %s %s)%s) (= (select %s %s) (select %s %s)))", sk, sk, refBound, excl, g.heapGet(n), sk, fr.loopKeep[s][n], sk), "objects that existed at function entry (other than the assigns targets) keep their "+n+" contents in the loop body")
		}
		if lc.Decreases != nil {
			d := g.trans(lc.Decreases, env)
			old := fr.val[decKey{s}]
			var p string
			if g.bv {
				sg := d.gt == nil || isSigned(d.gt)
				p = fmt.Sprintf("(and %s %s)", g.lt(d.t, old, sg), g.le(g.zeroOf(d), old, sg))
			} else {
				p = fmt.Sprintf("(and (< %s %s) (<= 0 %s))", d.t, old, old)
			}
			g.ob(fmt.Sprintf("loop%d-decreases", k), "", p, lc.Decreases.String())
		}
		g.curR = save
	}
}

func (g *Gen) zeroOf(d tvT) string {
	if d.gt != nil {
		return g.num(0, d.gt)
	}
	return g.idx(0)
}

// environment for contract expressions at the current point
func (g *Gen) curEnv() *TEnv {
	env := &TEnv{g: g, vars: map[string]tvT{}, pkg: nil}
	fr := g.fr
	if fr.c != nil {
		env.pkg = fr.c.Pkg
	}
	env.entryVars = map[string]tvT{}
	for k, v := range fr.params {
		env.vars[k] = v
		env.entryVars[k] = v
	}
	// source variables by name: current value (a reassigned parameter means its current value here;
	// old(p) is its entry value). Clauses exported to callers (requires/ensures) use entry values.
	for name := range fr.named {
		// the latest definition whose block dominates the current block (a definition on another
		// branch is not the variable's value here)
		v := fr.lookupNamed(name)
		if v == nil {
			continue
		}
		if t, ok := fr.val[v]; ok {
			env.vars[name] = tvT{t: t, gt: v.Type()}
		} else if c, isConst := v.(*ssa.Const); isConst {
			env.vars[name] = tvT{t: g.term(c), gt: v.Type()}
		}
	}
	g.bindNamedAddrs(env)
	g.bindRangeIndex(env)
	env.old = fr.oldHeap
	return env
}

// environment in which parameter names denote their entry values (requires / ensures)
func (g *Gen) contractEnv() *TEnv {
	env := g.curEnv()
	for k, v := range g.fr.params {
		env.vars[k] = v
	}
	return env
}

func (g *Gen) loopEnv(h, pred *ssa.BasicBlock) *TEnv {
	env := g.curEnv()
	// old(e) in an invariant is e in the function's entry state (heap and ghost state included)
	if env.old == nil {
		env.oldEntry = true
	}
	for _, in := range h.Instrs {
		phi, ok := in.(*ssa.Phi)
		if !ok {
			break
		}
		for k, pp := range h.Preds {
			if pp == pred && phi.Comment != "" {
				env.vars[phi.Comment] = tvT{t: g.term(phi.Edges[k]), gt: phi.Type()}
			}
		}
	}
	return env
}

// components possibly modified by the blocks of a loop body
func (g *Gen) modifiedIn(body map[*ssa.BasicBlock]bool) map[string]bool {
	m := map[string]bool{}
	precise := map[string][]string{} // component -> references written by stores whose object is loop-invariant
	oldw := map[string]bool{} // component possibly written on an object that existed before the loop
	defer func() {
		g.lastPrecise = map[string][]string{}
		for c, refs := range precise {
			oldw[c] = true
			if !m[c] {
				g.lastPrecise[c] = refs
				m[c] = true
			}
		}
		g.lastFreshOnly = map[string]bool{}
		if !m["*"] {
			for c := range m {
				if !oldw[c] && !strings.HasPrefix(c, "GH_") && !strings.HasPrefix(c, "GS_") && !strings.HasPrefix(c, "L_") {
					g.lastFreshOnly[c] = true
				}
			}
		}
	}()
	all := func(includeGhost bool) {
		for n := range g.comps {
			if strings.HasPrefix(n, "L_") {
				continue
			}
			if !includeGhost && strings.HasPrefix(n, "GH_") {
				continue
			}
			m[n] = true
		}
		m["*"] = true
	}
	var visitFn func(fn *ssa.Function, blocks []*ssa.BasicBlock, depth int)
	visitFn = func(fn *ssa.Function, blocks []*ssa.BasicBlock, depth int) {
		for _, b := range blocks {
			for _, in := range b.Instrs {
				switch x := in.(type) {
				case *ssa.Store:
					if depth == 0 {
						if comp, ref, ok := g.invariantStoreTarget(x.Addr, body); ok {
							precise[comp] = append(precise[comp], ref)
							continue
						}
					}
					fresh := depth == 0 && rootIsBodyAlloc(x.Addr, body)
					for _, n := range g.compsOfAddr(x.Addr) {
						m[n] = true
						if !fresh {
							oldw[n] = true
						}
					}
				case *ssa.MapUpdate:
					if depth == 0 && valueOutside(x.Map, body) {
						if _, have := g.fr.val[x.Map]; have || isParam(x.Map) {
							// the map written is fixed before the loop: only its own rows are unknown at the head
							for _, n := range g.mapComps(x.Map.Type()) {
								precise[n] = append(precise[n], g.term(x.Map))
							}
							continue
						}
					}
					for _, n := range g.mapComps(x.Map.Type()) {
						m[n] = true
						oldw[n] = true
					}
				case *ssa.Next:
					// the ghost set of keys a map iteration has produced so far
					if rg, ok := x.Iter.(*ssa.Range); ok && depth == 0 {
						if n, ok := g.fr.rangeSeen[rg]; ok {
							m[n] = true
						}
					}
				case ssa.CallInstruction:
					cc := x.Common()
					if bi, ok := cc.Value.(*ssa.Builtin); ok {
						switch bi.Name() {
						case "append", "copy":
							if st, ok := cc.Args[0].Type().Underlying().(*types.Slice); ok {
								c, _ := g.memComp(st.Elem())
								m[c] = true
								oldw[c] = true
							}
						case "delete":
							for _, n := range g.mapComps(cc.Args[0].Type()) {
								m[n] = true
								oldw[n] = true
							}
						}
						continue
					}
					callee := cc.StaticCallee()
					if callee == nil {
						if cl, ok := g.fr.clo[cc.Value]; ok {
							callee = cl.fn
						}
					}
					ct := g.contractFor(callee, cc)
					if ct != nil && !ct.Inline {
						if ct.AssignsAll {
							all(false)
						}
						for _, a := range ct.Assigns {
							one := *ct
							one.Assigns = []*Expr{a}
							if depth == 0 {
								// `assigns p.f` where the argument passed for p is fixed before the loop: only that
								// object's field is unknown at the loop head (as for a direct store through it)
								if comp, ref, ok := g.invariantAssignTarget(a, &one, callee, cc, body); ok {
									precise[comp] = append(precise[comp], ref)
									continue
								}
							}
							fresh := depth == 0 && g.assignRootIsBodyAlloc(a, callee, cc, body)
							for _, n := range g.assignComps(&one) {
								m[n] = true
								if !fresh {
									oldw[n] = true
								}
							}
						}
						continue
					}
					if callee != nil && callee.Blocks != nil && depth < 3 && g.inlineOK(callee, ct) {
						visitFn(callee, callee.Blocks, depth+1)
						continue
					}
					if isIgnoredCall(callee, cc) {
						continue
					}
					all(false)
				}
			}
		}
	}
	var blocks []*ssa.BasicBlock
	for b := range body {
		blocks = append(blocks, b)
	}
	sort.Slice(blocks, func(i, j int) bool { return blocks[i].Index < blocks[j].Index })
	visitFn(g.fr.fn, blocks, 0)
	if m["*"] {
		for n := range m {
			oldw[n] = true
		}
	}
	// ghost state updated by `ghost at` clauses: conservatively modified by every loop
	for _, n := range g.ghostAtComps() {
		m[n] = true
	}
	// local allocs stored in body
	for _, b := range blocks {
		for _, in := range b.Instrs {
			if st, ok := in.(*ssa.Store); ok {
				if l, ok := g.fr.lv[st.Addr]; ok && l.kind == "local" {
					m[l.comp] = true
				}
			}
			if a, ok := in.(*ssa.Alloc); ok {
				if l, ok := g.fr.lv[a]; ok && l.kind == "local" {
					m[l.comp] = true
				}
			}
		}
	}
	return m
}

// the references of the function's `assigns` targets in component n, evaluated at function entry
func (g *Gen) loopFrameTargets(n string) (refs []string, whole bool) {
	c := g.fr.c
	if c == nil || c.AssignsAll {
		return nil, true
	}
	defer func() {
		if r := recover(); r != nil {
			if _, ok := r.(transErr); ok {
				refs, whole = nil, true
				return
			}
			panic(r)
		}
	}()
	env := g.contractEnv()
	penv := &TEnv{g: g, vars: env.vars, pkg: env.pkg, oldEntry: true, inOld: true}
	for _, t := range g.assignTargets(c, penv) {
		if t.comp != n {
			continue
		}
		if t.whole || t.ref == "" {
			return nil, true
		}
		refs = append(refs, t.ref)
	}
	return refs, false
}

func valueOutside(v ssa.Value, body map[*ssa.BasicBlock]bool) bool {
	switch x := v.(type) {
	case *ssa.Parameter, *ssa.Const, *ssa.Global, *ssa.FreeVar:
		return true
	case ssa.Instruction:
		return !body[x.Block()]
	}
	return false
}

// the object written through addr is one allocated (escaping Alloc) inside the loop body itself
func rootIsBodyAlloc(a ssa.Value, body map[*ssa.BasicBlock]bool) bool {
	for i := 0; i < 8; i++ {
		switch x := a.(type) {
		case *ssa.Alloc:
			return body[x.Block()] && allocEscapes(x)
		case *ssa.FieldAddr:
			a = x.X
		case *ssa.IndexAddr:
			if _, ok := x.X.Type().Underlying().(*types.Pointer); !ok {
				return false
			}
			a = x.X
		default:
			return false
		}
	}
	return false
}

// an assigns target `p.f` (scalar field) of a callee's contract where the argument passed for p is a value
// defined before the loop: returns the field's component and the object's reference term
func (g *Gen) invariantAssignTarget(a *Expr, one *Contract, callee *ssa.Function, cc *ssa.CallCommon, body map[*ssa.BasicBlock]bool) (string, string, bool) {
	if callee == nil || cc.IsInvoke() || a.Op != "sel" || a.Args[0].Op != "id" {
		return "", "", false
	}
	for i, p := range callee.Params {
		if p.Name() != a.Args[0].Val || i >= len(cc.Args) {
			continue
		}
		pt, ok := p.Type().Underlying().(*types.Pointer)
		if !ok {
			return "", "", false
		}
		st, ok := pt.Elem().Underlying().(*types.Struct)
		if !ok {
			return "", "", false
		}
		fi, path := findField(pt.Elem(), a.Val)
		if fi < 0 || len(path) != 1 || isAggregate(st.Field(path[0]).Type()) {
			return "", "", false
		}
		v := cc.Args[i]
		outside := false
		switch x := v.(type) {
		case *ssa.Parameter, *ssa.Global, *ssa.FreeVar:
			outside = true
		case ssa.Instruction:
			outside = !body[x.Block()]
		}
		if !outside {
			return "", "", false
		}
		if _, isLv := g.fr.lv[v]; isLv {
			return "", "", false
		}
		if _, have := g.fr.val[v]; !have && !isParam(v) {
			return "", "", false
		}
		c, _ := g.fieldComp(pt.Elem(), path[0])
		return c, g.term(v), true
	}
	return "", "", false
}

// an assigns target `p`, `*p` or `p.f` of a callee's contract, where the argument passed for p at this call
// is an object allocated inside the loop body
func (g *Gen) assignRootIsBodyAlloc(a *Expr, callee *ssa.Function, cc *ssa.CallCommon, body map[*ssa.BasicBlock]bool) bool {
	if callee == nil || cc.IsInvoke() {
		return false
	}
	root := a
	switch a.Op {
	case "sel":
		root = a.Args[0]
	case "un":
		if a.Val != "*" {
			return false
		}
		root = a.Args[0]
	case "id":
	default:
		return false
	}
	if root.Op != "id" {
		return false
	}
	for i, p := range callee.Params {
		if p.Name() == root.Val && i < len(cc.Args) {
			if _, ok := p.Type().Underlying().(*types.Pointer); !ok {
				return false
			}
			return rootIsBodyAlloc(cc.Args[i], body)
		}
	}
	return false
}

// static guess of the components a store through addr touches
func (g *Gen) compsOfAddr(a ssa.Value) []string {
	if l, ok := g.fr.lv[a]; ok && !l.obj {
		return []string{l.comp}
	}
	switch x := a.(type) {
	case *ssa.FieldAddr:
		st := x.X.Type().Underlying().(*types.Pointer).Elem()
		if l, ok := g.fr.lv[x.X]; ok && !l.obj {
			return []string{l.comp}
		}
		ft := st.Underlying().(*types.Struct).Field(x.Field).Type()
		if isAggregate(ft) {
			return g.compsOfType(ft)
		}
		c, _ := g.fieldComp(st, x.Field)
		return []string{c}
	case *ssa.IndexAddr:
		switch u := x.X.Type().Underlying().(type) {
		case *types.Slice:
			c, _ := g.memComp(u.Elem())
			return []string{c}
		case *types.Pointer:
			if l, ok := g.fr.lv[x.X]; ok && !l.obj {
				return []string{l.comp}
			}
			c, _ := g.memComp(u.Elem().Underlying().(*types.Array).Elem())
			return []string{c}
		}
	}
	if pt, ok := a.Type().Underlying().(*types.Pointer); ok {
		return g.compsOfType(pt.Elem())
	}
	return nil
}

func (g *Gen) compsOfType(t types.Type) []string {
	switch u := t.Underlying().(type) {
	case *types.Struct:
		var out []string
		for i := 0; i < u.NumFields(); i++ {
			ft := u.Field(i).Type()
			if isAggregate(ft) {
				out = append(out, g.compsOfType(ft)...)
			} else {
				c, _ := g.fieldComp(t, i)
				out = append(out, c)
			}
		}
		return out
	case *types.Array:
		c, _ := g.memComp(u.Elem())
		return []string{c}
	}
	c, _ := g.cellComp(t)
	return []string{c}
}
