// Translation of contract expressions to SMT-LIB in the generator's arithmetic mode.
package main

import (
	"fmt"
	"go/constant"
	"go/types"
	"math/big"
	"os"
	"strings"

	"golang.org/x/tools/go/packages"
	"golang.org/x/tools/go/ssa"
)

// typed term
type tvT struct {
	t    string
	gt   types.Type // Go type; nil for spec-level values (see sort)
	sort string     // SMT sort when gt == nil ("Int", "Bool", or raw)
	lit  *big.Int   // integer literal value (untyped)
	addr string     // heap reference of an addressable array variable (for a[:])
}

type TEnv struct {
	g        *Gen
	vars     map[string]tvT
	pkg      *packages.Package
	old      map[string]string // heap snapshot for old(); nil => current
	oldEntry bool              // old() refers to function entry
	inOld    bool
	entryVars map[string]tvT   // entry values of parameters (old(p))
	absIdx   map[*Expr]string  // index nodes translated as an absolute array position (quantifier change of variables)
	patTerm  string            // instantiation pattern recorded by the primary occurrence
	freshLo, freshHi string    // reference range reserved for the objects a callee allocates (call sites)
	freshTerms []string
}

var mathInt = types.Typ[types.UntypedInt]

func (g *Gen) sortOfTv(v tvT) string {
	if v.gt == nil {
		if v.sort != "" {
			return v.sort
		}
		return "Int"
	}
	if v.gt == mathInt {
		if g.bv {
			return "(_ BitVec 64)"
		}
		return "Int"
	}
	return g.sortOf(v.gt)
}

func (e *TEnv) heap(comp string) string {
	g := e.g
	if e.inOld {
		if e.old != nil {
			if t, ok := e.old[comp]; ok {
				return t
			}
			return g.entry[comp]
		}
		if e.oldEntry {
			return g.entry[comp]
		}
	}
	return g.heapGet(comp)
}

type transErr struct{ msg string }

func (g *Gen) fail(f string, a ...interface{}) {
	panic(transErr{fmt.Sprintf(f, a...)})
}

func (g *Gen) transBool(e *Expr, env *TEnv) string {
	v := g.trans(e, env)
	if g.sortOfTv(v) != "Bool" {
		g.fail("expression %s is not boolean (sort %s)", e, g.sortOfTv(v))
	}
	return v.t
}

func (g *Gen) tryTransBool(e *Expr, env *TEnv) (s string, ok bool) {
	nd, nc := len(g.defs), len(g.decls)
	defer func() {
		if r := recover(); r != nil {
			if te, isT := r.(transErr); isT && strings.HasPrefix(te.msg, "unbound identifier") {
				g.defs, g.decls = g.defs[:nd], g.decls[:nc]
				ok = false
				return
			}
			panic(r)
		}
	}()
	return g.transBool(e, env), true
}

func boolTv(t string) tvT { return tvT{t: t, gt: types.Typ[types.Bool]} }

func isBoolTv(v tvT) bool {
	if v.gt != nil {
		return isBool(v.gt)
	}
	return v.sort == "Bool"
}

// coerce an untyped literal to the type of the other operand (bv mode)
func (g *Gen) coerce(a, b tvT) (tvT, tvT, types.Type) {
	if !g.bv {
		t := a.gt
		if t == nil || t == mathInt {
			t = b.gt
		}
		return a, b, t
	}
	if a.lit != nil && b.lit == nil && b.gt != nil && isInteger(b.gt) {
		a = tvT{t: g.numBig(a.lit, b.gt), gt: b.gt}
	} else if b.lit != nil && a.lit == nil && a.gt != nil && isInteger(a.gt) {
		b = tvT{t: g.numBig(b.lit, a.gt), gt: a.gt}
	}
	// strkey(..) and other abstract identities are of SMT sort Int in both modes; a spec function declared
	// `Int` is a 64-bit vector in this mode: the two cannot be compared (clause written for `arith int`)
	if (a.sort == "Int" && a.gt == nil && b.gt != nil && (b.gt == mathInt || isInteger(b.gt)) && b.lit == nil) ||
		(b.sort == "Int" && b.gt == nil && a.gt != nil && (a.gt == mathInt || isInteger(a.gt)) && a.lit == nil) {
		g.fail("bit-vector width mismatch: %s (%s) vs %s (%s): abstract identity against a machine integer", a.t, a.gt, b.t, b.gt)
	}
	t := a.gt
	if t == nil || t == mathInt {
		t = b.gt
	}
	if a.gt != nil && b.gt != nil && isInteger(a.gt) && isInteger(b.gt) && a.lit == nil && b.lit == nil {
		if bitsOf(a.gt) != bitsOf(b.gt) {
			g.fail("bit-vector width mismatch: %s (%s) vs %s (%s)", a.t, a.gt, b.t, b.gt)
		}
	}
	return a, b, t
}

func (g *Gen) trans(e *Expr, env *TEnv) tvT {
	switch e.Op {
	case "lit":
		v, ok := new(big.Int).SetString(e.Val, 0)
		if !ok {
			g.fail("bad literal %s", e.Val)
		}
		return tvT{t: g.numBig(v, nil), gt: mathInt, lit: v}
	case "strlit":
		// a Go string constant (as in `flag == "transfer"`): the same term the code's constant gets
		return tvT{t: g.stringConst(e.Val), gt: types.Typ[types.String]}
	case "smt":
		return tvT{t: g.substSmt(e.Val, env), sort: e.Sort}
	case "id":
		return g.transId(e.Val, env)
	case "un":
		a := g.trans(e.Args[0], env)
		switch e.Val {
		case "!":
			return boolTv(fmt.Sprintf("(not %s)", a.t))
		case "-":
			if a.lit != nil {
				v := new(big.Int).Neg(a.lit)
				return tvT{t: g.numBig(v, nil), gt: mathInt, lit: v}
			}
			if g.bv {
				return tvT{t: fmt.Sprintf("(bvneg %s)", a.t), gt: a.gt}
			}
			return tvT{t: fmt.Sprintf("(- %s)", a.t), gt: mathInt}
		case "^":
			if g.bv {
				return tvT{t: fmt.Sprintf("(bvnot %s)", a.t), gt: a.gt}
			}
			g.fail("bitwise not in int mode")
		case "*":
			// dereference pointer value
			pt, ok := a.gt.Underlying().(*types.Pointer)
			if !ok {
				g.fail("deref of non-pointer %s", e.Args[0])
			}
			return g.derefTv(a.t, pt.Elem(), env)
		}
	case "bin":
		return g.transBin(e, env)
	case "sel":
		return g.transSel(e, env)
	case "idx":
		return g.transIdx(e, env)
	case "slice":
		s := g.trans(e.Args[0], env)
		if s.gt != nil {
			// an array FIELD (msg.Hash) denotes its location: slicing it gives the slice over that array
			if pt, ok := s.gt.Underlying().(*types.Pointer); ok {
				if at, ok := pt.Elem().Underlying().(*types.Array); ok {
					s = tvT{t: fmt.Sprintf("(mk-slice %s %s %s %s)", s.t, g.idx(0), g.idx(at.Len()), g.idx(at.Len())), gt: types.NewSlice(at.Elem())}
				}
			}
			if at, ok := s.gt.Underlying().(*types.Array); ok {
				if s.addr == "" {
					g.fail("cannot slice array value without an address: %s : %s", e.Args[0].String(), s.t)
				}
				s = tvT{t: fmt.Sprintf("(mk-slice %s %s %s %s)", s.addr, g.idx(0), g.idx(at.Len()), g.idx(at.Len())), gt: types.NewSlice(at.Elem())}
			}
		}
		lo := g.idx(0)
		hi := fmt.Sprintf("(len %s)", s.t)
		if e.Args[1] != nil {
			lo = g.asIdx(g.trans(e.Args[1], env))
		}
		if e.Args[2] != nil {
			hi = g.asIdx(g.trans(e.Args[2], env))
		}
		return tvT{t: fmt.Sprintf("(mk-slice (base %s) %s %s %s)", s.t, g.addIdx("(off "+s.t+")", lo), g.subIdx(hi, lo), g.subIdx("(cap "+s.t+")", lo)), gt: s.gt}
	case "call":
		return g.transCall(e, env)
	case "forall", "exists":
		env2 := &TEnv{g: g, vars: map[string]tvT{}, pkg: env.pkg, old: env.old, oldEntry: env.oldEntry, inOld: env.inOld, entryVars: env.entryVars}
		for k, v := range env.vars {
			env2.vars[k] = v
		}
		env2.absIdx = env.absIdx
		var bs []string
		for _, b := range e.Vars {
			gt, so := g.resolveType(b.Type, env.pkg)
			name := "q_" + b.Name
			// a nested quantifier that reuses a bound name (typically through a macro) must not capture
			// the outer variable: pick a name no variable in scope translates to
			for clash := true; clash; {
				clash = false
				for _, ov := range env.vars {
					if ov.t == name || strings.Contains(ov.t, " "+name+")") || strings.Contains(ov.t, " "+name+" ") || strings.Contains(ov.t, "("+name+" ") {
						clash = true
						name += "_"
						break
					}
				}
			}
			env2.vars[b.Name] = tvT{t: name, gt: gt, sort: so}
			bs = append(bs, fmt.Sprintf("(%s %s)", name, so))
		}
		// Change of variables for quantifiers over slice positions: if the (single) bound variable i
		// indexes a slice as s[i + c], quantify over the ABSOLUTE position k = off(s) + i + c instead
		// (a bijection), so that the instantiation pattern is the plain select term at k. Index
		// arithmetic inside patterns defeats E-matching (terms get re-associated).
		if len(e.Vars) == 1 && so64(bs[0]) && (os.Getenv("GOVC_ABSIDX") != "" || (g.topC != nil && g.topC.AbsIdx)) {
			if prim, sl, off := findPrimaryIndex(e.Args[0], e.Vars[0].Name); prim != nil {
				func() {
					defer func() {
						if r := recover(); r != nil {
							if _, ok := r.(transErr); !ok {
								panic(r)
							}
						}
					}()
					S := g.trans(sl, env2)
					isSlice := false
					if S.gt != nil {
						if _, ok := S.gt.Underlying().(*types.Slice); ok || isString(S.gt) {
							isSlice = true
						}
					}
					if !isSlice {
						return
					}
					cT := g.idx(0)
					if off != nil {
						cT = g.asIdx(g.trans(off, env2))
					}
					k := "q_" + e.Vars[0].Name
					iT := g.subIdx(g.subIdx(k, "(off "+S.t+")"), cT)
					v := env2.vars[e.Vars[0].Name]
					v.t = iT
					env2.vars[e.Vars[0].Name] = v
					if env2.absIdx == nil {
						env2.absIdx = map[*Expr]string{}
					}
					env2.absIdx[prim] = k
				}()
			}
		}
		env2.patTerm = ""
		body := g.transBool(e.Args[0], env2)
		if env2.patTerm != "" {
			return boolTv(fmt.Sprintf("(%s (%s) (! %s :pattern (%s)))", e.Op, strings.Join(bs, " "), body, env2.patTerm))
		}
		if os.Getenv("GOVC_NOPATTERN") == "" {
			var names []string
			for _, b := range e.Vars {
				names = append(names, "q_"+b.Name)
			}
			if pat := choosePattern(body, names); pat != "" {
				return boolTv(fmt.Sprintf("(%s (%s) (! %s :pattern (%s)))", e.Op, strings.Join(bs, " "), body, pat))
			}
		}
		return boolTv(fmt.Sprintf("(%s (%s) %s)", e.Op, strings.Join(bs, " "), body))
	}
	g.fail("cannot translate %s", e)
	return tvT{}
}

func (g *Gen) asIdx(v tvT) string {
	if !g.bv {
		return v.t
	}
	if v.lit != nil {
		return g.bvlit(v.lit, 64)
	}
	if v.gt != nil && isInteger(v.gt) {
		return g.extTo64(v.t, v.gt)
	}
	return v.t
}

func (g *Gen) substSmt(s string, env *TEnv) string {
	// $name -> term of variable; $H(comp) -> current heap component; $OLD(comp) -> old heap component
	var sb strings.Builder
	for i := 0; i < len(s); i++ {
		if s[i] != '$' {
			sb.WriteByte(s[i])
			continue
		}
		j := i + 1
		for j < len(s) && (isIdStart(s[j]) || s[j] >= '0' && s[j] <= '9') {
			j++
		}
		name := s[i+1 : j]
		if (name == "H" || name == "OLD") && j < len(s) && s[j] == '(' {
			k := strings.Index(s[j:], ")")
			comp := s[j+1 : j+k]
			if _, ok := g.comps[comp]; !ok {
				g.fail("unknown heap component %s in smt escape", comp)
			}
			if name == "OLD" {
				save := env.inOld
				env.inOld = true
				sb.WriteString(env.heap(comp))
				env.inOld = save
			} else {
				sb.WriteString(env.heap(comp))
			}
			i = j + k
			continue
		}
		v, ok := env.vars[name]
		if !ok {
			g.fail("unbound $%s in smt escape", name)
		}
		sb.WriteString(v.t)
		i = j - 1
	}
	return sb.String()
}

func (g *Gen) transId(name string, env *TEnv) tvT {
	switch name {
	case "true", "false":
		return boolTv(name)
	case "nil":
		return tvT{t: "0", gt: types.Typ[types.UnsafePointer]}
	}
	if env.inOld && env.entryVars != nil {
		if v, ok := env.entryVars[name]; ok {
			return v
		}
	}
	if v, ok := env.vars[name]; ok {
		return v
	}
	if gv, ok := g.w.DB.Ghosts[name]; ok {
		return g.ghostTv(gv, env)
	}
	if c, ok := g.w.DB.Consts[name]; ok {
		v, _ := new(big.Int).SetString(c.Val, 0)
		return tvT{t: g.numBig(v, nil), gt: mathInt, lit: v}
	}
	if sf, ok := g.w.DB.Specs[name]; ok && len(sf.Params) == 0 {
		g.needSpec(sf)
		gt, so := g.resolveType(sf.Ret, sf.Pkg)
		return tvT{t: name, gt: gt, sort: so}
	}
	// package-level object
	if env.pkg != nil {
		if obj := env.pkg.Types.Scope().Lookup(name); obj != nil {
			return g.objTv(obj, env)
		}
	}
	g.fail("unbound identifier %s", name)
	return tvT{}
}

func (g *Gen) ghostComp(gv *GhostVar) (string, types.Type, string) {
	gt, so := g.resolveType(gv.Type, gv.Pkg)
	name := "GH_" + gv.Name
	if gv.State {
		name = "GS_" + gv.Name
	}
	g.comp(name, so)
	return name, gt, so
}

func (g *Gen) ghostTv(gv *GhostVar, env *TEnv) tvT {
	name, gt, so := g.ghostComp(gv)
	return tvT{t: env.heap(name), gt: gt, sort: so}
}

func (g *Gen) objTv(obj types.Object, env *TEnv) tvT {
	switch o := obj.(type) {
	case *types.Const:
		switch o.Val().Kind() {
		case constant.Int:
			v, _ := new(big.Int).SetString(o.Val().ExactString(), 10)
			if isInteger(o.Type()) {
				if _, untyped := o.Type().(*types.Basic); untyped && o.Type().(*types.Basic).Info()&types.IsUntyped != 0 {
					return tvT{t: g.numBig(v, nil), gt: mathInt, lit: v}
				}
				return tvT{t: g.numBig(v, o.Type()), gt: o.Type(), lit: v}
			}
		case constant.Bool:
			if constant.BoolVal(o.Val()) {
				return boolTv("true")
			}
			return boolTv("false")
		}
		g.fail("unsupported constant %s", o.Name())
	case *types.Var:
		// package-level variable: load through its global ref
		sp := g.w.Prog.Package(o.Pkg())
		if sp == nil {
			g.fail("no ssa package for %s", o.Pkg().Path())
		}
		gl, ok := sp.Members[o.Name()].(*ssa.Global)
		if !ok {
			g.fail("not a global: %s", o.Name())
		}
		return g.derefTv(g.globalRef(gl), o.Type(), env)
	}
	g.fail("unsupported object %s", obj)
	return tvT{}
}

// value stored at ref r of type t, in env's heap; aggregates are returned as pointers (auto-deref)
func (g *Gen) derefTv(r string, t types.Type, env *TEnv) tvT {
	if isAggregate(t) {
		return tvT{t: r, gt: types.NewPointer(t)}
	}
	c, _ := g.cellComp(t)
	return tvT{t: fmt.Sprintf("(select %s %s)", env.heap(c), r), gt: t}
}

func (g *Gen) transSel(e *Expr, env *TEnv) tvT {
	// package-qualified name?
	if e.Args[0].Op == "id" {
		if _, isVar := env.vars[e.Args[0].Val]; !isVar && env.pkg != nil {
			if imp := g.w.importByName(env.pkg, e.Args[0].Val); imp != nil && imp.Types != nil {
				obj := imp.Types.Scope().Lookup(e.Val)
				if obj == nil {
					g.fail("no %s in package %s", e.Val, imp.PkgPath)
				}
				return g.objTv(obj, env)
			}
		}
	}
	x := g.trans(e.Args[0], env)
	if x.gt == nil {
		g.fail("field selection on untyped value %s", e.Args[0])
	}
	// pseudo-fields of slices
	if _, ok := x.gt.Underlying().(*types.Slice); ok || isString(x.gt) {
		switch e.Val {
		case "base":
			return tvT{t: fmt.Sprintf("(base %s)", x.t), gt: types.Typ[types.UnsafePointer]}
		case "off":
			return tvT{t: fmt.Sprintf("(off %s)", x.t), gt: types.Typ[types.Int]}
		}
	}
	switch u := x.gt.Underlying().(type) {
	case *types.Pointer:
		st, ok := u.Elem().Underlying().(*types.Struct)
		if !ok {
			g.fail("selection .%s on pointer to non-struct", e.Val)
		}
		i, path := findField(u.Elem(), e.Val)
		if i < 0 {
			g.fail("no field %s in %s", e.Val, u.Elem())
		}
		_ = st
		// walk embedded path
		r := x.t
		cur := u.Elem()
		for _, fi := range path {
			ft := cur.Underlying().(*types.Struct).Field(fi).Type()
			if isAggregate(ft) {
				r = g.subRef(cur, fi, r)
				cur = ft
				continue
			}
			c, _ := g.fieldComp(cur, fi)
			v := tvT{t: fmt.Sprintf("(select %s %s)", env.heap(c), r), gt: ft}
			if so := g.sortOf(ft); so == "Slice" && !strings.Contains(v.t, "q_") {
				// every slice/string stored in the heap is well-formed (true of every real state)
				// (in the entry state it belongs to an object that existed at entry)
				g.assumeAlways(g.sliceWF(v.t, g.pristine[env.heap(c)]))
			} else if isInteger(ft) && !g.bv && !strings.Contains(v.t, "q_") {
				// a stored integer field holds a value of its type (the same fact the code gets at a load)
				if ti := g.typeInv(v.t, ft, false); ti != "true" {
					g.assumeAlways(ti)
				}
			} else if !strings.Contains(v.t, "q_") && g.pristine[env.heap(c)] {
				// a reference read from a heap version that predates the function denotes an object that
				// existed at entry (the same fact the code gets at a load)
				switch ft.Underlying().(type) {
				case *types.Pointer, *types.Map, *types.Interface:
					if ti := g.typeInv(v.t, ft, true); ti != "true" {
						g.assumeAlways(ti)
					}
				}
			}
			return v
		}
		return tvT{t: r, gt: types.NewPointer(cur)}
	case *types.Struct:
		i, path := findField(x.gt, e.Val)
		if i < 0 {
			g.fail("no field %s in %s", e.Val, x.gt)
		}
		v := x.t
		cur := x.gt
		for _, fi := range path {
			v = g.fieldSel(cur, fi, v)
			cur = cur.Underlying().(*types.Struct).Field(fi).Type()
		}
		return tvT{t: v, gt: cur}
	}
	g.fail("cannot select .%s on %s", e.Val, x.gt)
	return tvT{}
}

// field lookup incl. embedded structs (by value); returns index path
func findField(t types.Type, name string) (int, []int) {
	st, ok := t.Underlying().(*types.Struct)
	if !ok {
		return -1, nil
	}
	for i := 0; i < st.NumFields(); i++ {
		if st.Field(i).Name() == name {
			return i, []int{i}
		}
	}
	for i := 0; i < st.NumFields(); i++ {
		if st.Field(i).Embedded() {
			if _, isStruct := st.Field(i).Type().Underlying().(*types.Struct); isStruct {
				if j, p := findField(st.Field(i).Type(), name); j >= 0 {
					return j, append([]int{i}, p...)
				}
			}
		}
	}
	return -1, nil
}

func (g *Gen) transIdx(e *Expr, env *TEnv) tvT {
	x := g.trans(e.Args[0], env)
	if x.gt == nil {
		// ghost map (Array Int X) indexed by a reference
		k := g.trans(e.Args[1], env)
		es := strings.TrimSuffix(strings.TrimPrefix(x.sort, "(Array Int "), ")")
		if es == "Int" {
			return tvT{t: fmt.Sprintf("(select %s %s)", x.t, k.t), gt: mathInt}
		}
		return tvT{t: fmt.Sprintf("(select %s %s)", x.t, k.t), sort: es}
	}
	i := g.asIdx(g.trans(e.Args[1], env))
	switch u := x.gt.Underlying().(type) {
	case *types.Slice:
		c, _ := g.memComp(u.Elem())
		if k, ok := env.absIdx[e]; ok {
			// primary occurrence of a quantified position: absolute index, and the pattern of the quantifier
			t := fmt.Sprintf("(select (select %s (base %s)) %s)", env.heap(c), x.t, k)
			env.patTerm = t
			return g.elemTv(t, u.Elem())
		}
		return g.elemTv(fmt.Sprintf("(select (select %s (base %s)) %s)", env.heap(c), x.t, g.elemIdx("(off "+x.t+")", i)), u.Elem())
	case *types.Basic: // string
		c, _ := g.memComp(types.Typ[types.Uint8])
		return tvT{t: fmt.Sprintf("(select (select %s (base %s)) %s)", env.heap(c), x.t, g.elemIdx("(off "+x.t+")", i)), gt: types.Typ[types.Uint8]}
	case *types.Array:
		return g.elemTv(fmt.Sprintf("(select %s %s)", x.t, i), u.Elem())
	case *types.Pointer:
		if arr, ok := u.Elem().Underlying().(*types.Array); ok {
			c, _ := g.memComp(arr.Elem())
			return g.elemTv(fmt.Sprintf("(select (select %s %s) %s)", env.heap(c), x.t, i), arr.Elem())
		}
	case *types.Map:
		return g.mapGetTv(x, g.trans(e.Args[1], env), env)
	}
	g.fail("cannot index %s", x.gt)
	return tvT{}
}

func (g *Gen) elemTv(t string, et types.Type) tvT {
	return tvT{t: t, gt: et}
}

func (g *Gen) resolveType(tx *TypeX, pkg *packages.Package) (types.Type, string) {
	switch tx.Kind {
	case "name":
		switch tx.Name {
		case "Int":
			if g.bv {
				return mathInt, "(_ BitVec 64)"
			}
			return mathInt, "Int"
		case "Ref":
			return types.Typ[types.UnsafePointer], "Int"
		case "IntMap":
			// ghost map from references to mathematical integers (bit-vectors of 520 bits in bv mode)
			if g.bv {
				return nil, "(Array Int (_ BitVec 520))"
			}
			return nil, "(Array Int Int)"
		case "ByteMem":
			// the value of mem(s) for a []byte / string s: the backing array as a map from index to byte, in the
			// sorts of the current arithmetic mode (so a spec over message bytes is usable from int and bv callers)
			_, so := g.memComp(types.Typ[types.Uint8])
			return nil, so
		case "bool", "Bool":
			return types.Typ[types.Bool], "Bool"
		}
		if strings.HasPrefix(tx.Name, "Mem_") {
			// Mem_T: the value of mem(s) for a []T (backing array as a map from index to T)
			et, err := parseTypeStr(strings.TrimPrefix(tx.Name, "Mem_"))
			if err != nil {
				g.fail("bad element type in %s", tx.Name)
			}
			egt, _ := g.resolveType(et, pkg)
			if egt == nil {
				g.fail("unknown element type in %s", tx.Name)
			}
			_, so := g.memComp(egt)
			return nil, so
		}
		switch tx.Name {
		case "string":
			return types.Typ[types.String], "Slice"
		case "byte":
			return types.Typ[types.Uint8], g.sortOf(types.Typ[types.Uint8])
		case "error":
			t := types.Universe.Lookup("error").Type()
			return t, "Int"
		}
		for _, b := range types.Typ {
			if b.Name() == tx.Name && b.Info()&types.IsUntyped == 0 {
				return b, g.sortOf(b)
			}
		}
		// named type
		name := tx.Name
		p := pkg
		if i := strings.Index(name, "."); i >= 0 && pkg != nil {
			pn := name[:i]
			name = name[i+1:]
			p = nil
			p = g.w.importByName(pkg, pn)
			if p == nil {
				g.fail("unknown package %s in type %s", pn, tx.Name)
			}
		}
		if p != nil {
			if obj := p.Types.Scope().Lookup(name); obj != nil {
				if tn, ok := obj.(*types.TypeName); ok {
					return tn.Type(), g.sortOf(tn.Type())
				}
			}
		}
		g.fail("unknown type %s", tx.Name)
	case "slice":
		et, _ := g.resolveType(tx.Elem, pkg)
		return types.NewSlice(et), "Slice"
	case "array":
		et, _ := g.resolveType(tx.Elem, pkg)
		t := types.NewArray(et, tx.Len)
		return t, g.sortOf(t)
	case "ptr":
		et, _ := g.resolveType(tx.Elem, pkg)
		return types.NewPointer(et), "Int"
	case "map":
		kt, _ := g.resolveType(tx.Key, pkg)
		et, _ := g.resolveType(tx.Elem, pkg)
		return types.NewMap(kt, et), "Int"
	}
	g.fail("bad type")
	return nil, ""
}

func (g *Gen) transBin(e *Expr, env *TEnv) tvT {
	op := e.Val
	switch op {
	case "==>":
		return boolTv(fmt.Sprintf("(=> %s %s)", g.transBool(e.Args[0], env), g.transBool(e.Args[1], env)))
	case "<==>":
		return boolTv(fmt.Sprintf("(= %s %s)", g.transBool(e.Args[0], env), g.transBool(e.Args[1], env)))
	case "&&":
		return boolTv(fmt.Sprintf("(and %s %s)", g.transBool(e.Args[0], env), g.transBool(e.Args[1], env)))
	case "||":
		return boolTv(fmt.Sprintf("(or %s %s)", g.transBool(e.Args[0], env), g.transBool(e.Args[1], env)))
	}
	a := g.trans(e.Args[0], env)
	b := g.trans(e.Args[1], env)
	if a.lit != nil && b.lit != nil {
		// constant folding
		var r *big.Int
		switch op {
		case "+":
			r = new(big.Int).Add(a.lit, b.lit)
		case "-":
			r = new(big.Int).Sub(a.lit, b.lit)
		case "*":
			r = new(big.Int).Mul(a.lit, b.lit)
		case "<<":
			r = new(big.Int).Lsh(a.lit, uint(b.lit.Int64()))
		case "/":
			if b.lit.Sign() != 0 {
				r = new(big.Int).Quo(a.lit, b.lit)
			}
		}
		if r != nil {
			return tvT{t: g.numBig(r, nil), gt: mathInt, lit: r}
		}
	}
	// nil compared with a slice / string value
	if op == "==" || op == "!=" {
		isNil := func(v tvT) bool { return v.t == "0" && v.gt == types.Typ[types.UnsafePointer] }
		if isNil(a) && g.sortOfTv(b) == "Slice" {
			a = tvT{t: g.nilSlice(), gt: b.gt}
		} else if isNil(b) && g.sortOfTv(a) == "Slice" {
			b = tvT{t: g.nilSlice(), gt: a.gt}
		}
	}
	a, b, t := g.coerce(a, b)
	signed := true
	if t != nil && t != mathInt && isInteger(t) {
		signed = isSigned(t)
	}
	// in bv mode, untyped literals vs untyped: 64-bit
	switch op {
	case "==":
		if a.gt != nil && isString(a.gt) && b.gt != nil && isString(b.gt) {
			return boolTv(g.eqTerm(a.t, b.t, a.gt))
		}
		return boolTv(fmt.Sprintf("(= %s %s)", a.t, b.t))
	case "!=":
		if a.gt != nil && isString(a.gt) && b.gt != nil && isString(b.gt) {
			return boolTv(fmt.Sprintf("(not %s)", g.eqTerm(a.t, b.t, a.gt)))
		}
		return boolTv(fmt.Sprintf("(not (= %s %s))", a.t, b.t))
	case "<":
		return boolTv(g.lt(a.t, b.t, signed))
	case "<=":
		return boolTv(g.le(a.t, b.t, signed))
	case ">":
		return boolTv(g.lt(b.t, a.t, signed))
	case ">=":
		return boolTv(g.le(b.t, a.t, signed))
	}
	if g.bv {
		m := map[string]string{"+": "bvadd", "-": "bvsub", "*": "bvmul", "&": "bvand", "|": "bvor", "^": "bvxor"}[op]
		if m != "" {
			return tvT{t: fmt.Sprintf("(%s %s %s)", m, a.t, b.t), gt: t}
		}
		switch op {
		case "/":
			if signed {
				return tvT{t: fmt.Sprintf("(bvsdiv %s %s)", a.t, b.t), gt: t}
			}
			return tvT{t: fmt.Sprintf("(bvudiv %s %s)", a.t, b.t), gt: t}
		case "%":
			if signed {
				return tvT{t: fmt.Sprintf("(bvsrem %s %s)", a.t, b.t), gt: t}
			}
			return tvT{t: fmt.Sprintf("(bvurem %s %s)", a.t, b.t), gt: t}
		case "<<":
			return tvT{t: fmt.Sprintf("(bvshl %s %s)", a.t, b.t), gt: t}
		case ">>":
			if signed {
				return tvT{t: fmt.Sprintf("(bvashr %s %s)", a.t, b.t), gt: t}
			}
			return tvT{t: fmt.Sprintf("(bvlshr %s %s)", a.t, b.t), gt: t}
		case "&^":
			return tvT{t: fmt.Sprintf("(bvand %s (bvnot %s))", a.t, b.t), gt: t}
		}
	} else {
		// mathematical integers: no wrap in specifications
		switch op {
		case "&", "|", "^":
			g.needBitFns()
			fn := map[string]string{"&": "bitand", "|": "bitor", "^": "bitxor"}[op]
			return tvT{t: fmt.Sprintf("(%s %s %s)", fn, a.t, b.t), gt: mathInt}
		case "+", "-", "*":
			return tvT{t: fmt.Sprintf("(%s %s %s)", op, a.t, b.t), gt: mathInt}
		case "/":
			// Go-style truncated division on mathematical integers
			return tvT{t: fmt.Sprintf("(tdiv %s %s)", a.t, b.t), gt: mathInt}
		case "%":
			return tvT{t: fmt.Sprintf("(trem %s %s)", a.t, b.t), gt: mathInt}
		case "<<":
			if b.lit != nil {
				return tvT{t: fmt.Sprintf("(* %s %s)", a.t, pow2(int(b.lit.Int64()))), gt: mathInt}
			}
		case ">>":
			if b.lit != nil {
				return tvT{t: fmt.Sprintf("(div %s %s)", a.t, pow2(int(b.lit.Int64()))), gt: mathInt}
			}
		}
	}
	g.fail("unsupported operator %s in %s mode", op, map[bool]string{true: "bv", false: "int"}[g.bv])
	return tvT{}
}

var castTypes = map[string]types.Type{
	"uint8": types.Typ[types.Uint8], "uint16": types.Typ[types.Uint16], "uint32": types.Typ[types.Uint32], "uint64": types.Typ[types.Uint64],
	"int8": types.Typ[types.Int8], "int16": types.Typ[types.Int16], "int32": types.Typ[types.Int32], "int64": types.Typ[types.Int64],
	"int": types.Typ[types.Int], "uint": types.Typ[types.Uint], "byte": types.Typ[types.Uint8],
}

func (g *Gen) transCall(e *Expr, env *TEnv) tvT {
	fnE := e.Args[0]
	args := e.Args[1:]
	if fnE.Op != "id" {
		g.fail("call of non-identifier %s", fnE)
	}
	name := fnE.Val
	switch name {
	case "old":
		save := env.inOld
		env.inOld = true
		v := g.trans(args[0], env)
		env.inOld = save
		return v
	case "len", "cap":
		x := g.trans(args[0], env)
		if x.gt != nil {
			switch u := x.gt.Underlying().(type) {
			case *types.Array:
				return tvT{t: g.idx(u.Len()), gt: types.Typ[types.Int]}
			case *types.Pointer:
				if arr, ok := u.Elem().Underlying().(*types.Array); ok {
					return tvT{t: g.idx(arr.Len()), gt: types.Typ[types.Int]}
				}
			case *types.Map:
				return tvT{t: g.mapLenIn(x.t, x.gt, env), gt: types.Typ[types.Int]}
			}
		}
		return tvT{t: fmt.Sprintf("(%s %s)", name, x.t), gt: types.Typ[types.Int]}
	case "ite":
		c := g.transBool(args[0], env)
		a := g.trans(args[1], env)
		b := g.trans(args[2], env)
		a, b, t := g.coerce(a, b)
		r := tvT{t: fmt.Sprintf("(ite %s %s %s)", c, a.t, b.t), gt: t}
		if t == nil {
			r.sort = a.sort
		}
		return r
	case "Int":
		x := g.trans(args[0], env)
		if g.bv {
			g.fail("Int() conversion is not available in bv mode")
		}
		return tvT{t: x.t, gt: mathInt}
	case "min", "max":
		a, b, t := g.coerce(g.trans(args[0], env), g.trans(args[1], env))
		s := t == nil || t == mathInt || isSigned(t)
		if name == "min" {
			return tvT{t: fmt.Sprintf("(ite %s %s %s)", g.le(a.t, b.t, s), a.t, b.t), gt: t}
		}
		return tvT{t: fmt.Sprintf("(ite %s %s %s)", g.le(a.t, b.t, s), b.t, a.t), gt: t}
	case "pow2":
		if g.bv {
			g.fail("pow2 in bv mode")
		}
		g.needPow2()
		a := g.trans(args[0], env)
		return tvT{t: fmt.Sprintf("(pow2 %s)", a.t), gt: mathInt}
	case "fdiv":
		// floor division of mathematical integers (divisor > 0)
		a := g.trans(args[0], env)
		b := g.trans(args[1], env)
		if g.bv {
			g.fail("fdiv in bv mode")
		}
		return tvT{t: fmt.Sprintf("(div %s %s)", a.t, b.t), gt: mathInt}
	case "abs":
		a := g.trans(args[0], env)
		if g.bv {
			g.fail("abs in bv mode")
		}
		return tvT{t: fmt.Sprintf("(ite (< %s 0) (- %s) %s)", a.t, a.t, a.t), gt: mathInt}
	case "arr":
		// arr(s): the identity of the backing array of slice s (two slices share storage only if these are equal)
		x := g.trans(args[0], env)
		if x.gt == nil {
			g.fail("arr() of non-slice")
		}
		if _, ok := x.gt.Underlying().(*types.Slice); !ok {
			g.fail("arr() of non-slice")
		}
		// typed as a reference, so that `arr(s) == nil` (no backing array: a nil or zero-capacity slice
		// literal) and arr(s) == arr(t) mean the same in both arithmetic modes
		return tvT{t: fmt.Sprintf("(base %s)", x.t), gt: types.Typ[types.UnsafePointer]}
	case "offs":
		// offs(s): position of s[0] inside its backing array (with arr(s): where exactly the slice lives)
		x := g.trans(args[0], env)
		if x.gt == nil {
			g.fail("offs() of non-slice")
		}
		if _, ok := x.gt.Underlying().(*types.Slice); !ok {
			g.fail("offs() of non-slice")
		}
		if g.bv {
			return tvT{t: fmt.Sprintf("(off %s)", x.t), gt: types.Typ[types.Int]}
		}
		return tvT{t: fmt.Sprintf("(off %s)", x.t), gt: mathInt}
	case "whole":
		// whole(x): the storage x refers to (a slice's backing array, or the object a pointer denotes) is an
		// allocation of its own, not an array or struct embedded in another object
		x := g.trans(args[0], env)
		r := x.t
		if x.gt != nil {
			if _, ok := x.gt.Underlying().(*types.Slice); ok {
				r = fmt.Sprintf("(base %s)", x.t)
			}
		}
		g.needFldTag()
		return boolTv(fmt.Sprintf("(= (fldtag %s) 0)", r))
	case "seen1", "seen2", "seen3", "seen4":
		// seenN(k): the N-th map iteration of the function has already produced key k
		k := g.trans(args[0], env)
		for rg, comp := range g.fr.rangeSeen {
			if comp == "L_"+name {
				mt := rg.X.Type().Underlying().(*types.Map)
				kt := k.t
				if g.bv && k.lit != nil {
					kt = g.numBig(k.lit, mt.Key())
				}
				return boolTv(fmt.Sprintf("(select %s %s)", env.heap(comp), g.mapKey(kt, mt)))
			}
		}
		g.fail("%s(): the function has no such map iteration before this point", name)
	case "has":
		// has(m, k): key k is in map m
		m := g.trans(args[0], env)
		k := g.trans(args[1], env)
		mt, ok := m.gt.Underlying().(*types.Map)
		if !ok {
			g.fail("has() of non-map")
		}
		_, in, _ := g.mapCompNames(m.gt)
		kt := k.t
		if g.bv && k.lit != nil {
			kt = g.numBig(k.lit, mt.Key())
		}
		return boolTv(fmt.Sprintf("(and (not (= %s 0)) (select (select %s %s) %s))", m.t, env.heap(in), m.t, g.mapKey(kt, mt)))
	case "strlt":
		// strlt(a, b): string a orders before string b (the strict total order on contents the code's < uses)
		a := g.trans(args[0], env)
		b := g.trans(args[1], env)
		sm := types.NewMap(types.Typ[types.String], types.Typ[types.Bool])
		if !g.funDecl["strlt"] {
			g.funDecl["strlt"] = true
			g.prel = append(g.prel, "(declare-fun strlt (Int Int) Bool)")
			g.assumeGlobal("(forall ((a Int) (b Int)) (! (and (not (and (strlt a b) (strlt b a))) (=> (not (= a b)) (or (strlt a b) (strlt b a))) (=> (= a b) (not (strlt a b)))) :pattern ((strlt a b))))")
		}
		return boolTv(fmt.Sprintf("(strlt %s %s)", g.mapKey(a.t, sm), g.mapKey(b.t, sm)))
	case "strkey":
		// strkey(s): the content identity of a string (what map lookups and == compare)
		s := g.trans(args[0], env)
		return tvT{t: g.mapKey(s.t, types.NewMap(types.Typ[types.String], types.Typ[types.Bool])), sort: "Int"}
	case "val":
		// val(p): the array VALUE stored at p, where p denotes an addressable array (a field such as
		// tx.hash, which otherwise denotes its location so that tx.hash[i] and tx.hash[:] work)
		x := g.trans(args[0], env)
		if pt, ok := x.gt.Underlying().(*types.Pointer); ok {
			if at, ok := pt.Elem().Underlying().(*types.Array); ok {
				c, _ := g.memComp(at.Elem())
				return tvT{t: fmt.Sprintf("(select %s %s)", env.heap(c), x.t), gt: pt.Elem()}
			}
		}
		if _, ok := x.gt.Underlying().(*types.Array); ok {
			return x
		}
		g.fail("val() of a non-array")
	case "mem":
		// mem(s): the backing array of slice s (Array Idx Elem), for equality statements
		x := g.trans(args[0], env)
		if st, ok := x.gt.Underlying().(*types.Slice); ok {
			c, inner := g.memComp(st.Elem())
			return tvT{t: fmt.Sprintf("(select %s (base %s))", env.heap(c), x.t), sort: inner}
		}
		if isString(x.gt) {
			c, inner := g.memComp(types.Typ[types.Uint8])
			return tvT{t: fmt.Sprintf("(select %s (base %s))", env.heap(c), x.t), sort: inner}
		}
		g.fail("mem() of non-slice")
	case "fresh":
		// fresh(p): reference allocated during the call / function
		x := g.trans(args[0], env)
		r := x.t
		if _, ok := x.gt.Underlying().(*types.Slice); ok {
			r = fmt.Sprintf("(base %s)", x.t)
		}
		if env.freshLo != "" {
			// assumed at a call site: the callee's new objects live in a range reserved for this call,
			// hence differ from every object allocated before (by this function or by earlier calls)
			env.freshTerms = append(env.freshTerms, r)
			g.needFldTag()
			return boolTv(fmt.Sprintf("(and (>= %s %s) (< %s %s) (= (fldtag %s) 0))", r, env.freshLo, r, env.freshHi, r))
		}
		// (callers assume a fresh reference is a whole allocation, so that is part of what is proved)
		g.needFldTag()
		return boolTv(fmt.Sprintf("(and (>= %s %s) (= (fldtag %s) 0))", r, refBound, r))
	case "typeof":
		x := g.trans(args[0], env)
		g.needIface()
		return tvT{t: fmt.Sprintf("(itype %s)", x.t), sort: "Int"}
	case "typetag":
		// typetag(T): tag of named type T (pointer with *T)
		tx, err := parseTypeStr(args[0].String())
		if err != nil {
			g.fail("typetag: %v", err)
		}
		gt, _ := g.resolveType(tx, env.pkg)
		return tvT{t: g.typeTag(gt), sort: "Int"}
	case "unbox":
		// unbox(x, T): the value of dynamic type T stored in interface value x (meaningful when typeof(x) == typetag(T))
		tx, err := parseTypeStr(args[1].String())
		if err != nil {
			g.fail("unbox: %v", err)
		}
		gt, _ := g.resolveType(tx, env.pkg)
		if gt == nil {
			g.fail("unbox: unknown type %s", args[1].String())
		}
		x := g.trans(args[0], env)
		g.needIface()
		return tvT{t: fmt.Sprintf("(%s %s)", g.ipayload(gt), x.t), gt: gt}
	}
	if ct, ok := castTypes[name]; ok && len(args) == 1 {
		x := g.trans(args[0], env)
		if x.lit != nil {
			return tvT{t: g.numBig(x.lit, ct), gt: ct, lit: x.lit}
		}
		if g.bv {
			if x.gt == nil || !isInteger(x.gt) {
				g.fail("cast of non-integer")
			}
			return tvT{t: g.convInt(x.t, x.gt, ct), gt: ct}
		}
		return tvT{t: g.wrap(x.t, ct), gt: ct}
	}
	// payload of interface: as_T(x)
	if strings.HasPrefix(name, "as_") && len(args) == 1 {
		tx, err := parseTypeStr(strings.TrimPrefix(name, "as_"))
		if err == nil {
			gt, _ := g.resolveType(tx, env.pkg)
			x := g.trans(args[0], env)
			return tvT{t: fmt.Sprintf("(%s %s)", g.ipayload(gt), x.t), gt: gt}
		}
	}
	sf, ok := g.w.DB.Specs[name]
	if !ok {
		g.fail("unknown function %s in contract expression", name)
	}
	if len(args) != len(sf.Params) {
		g.fail("spec %s expects %d arguments", name, len(sf.Params))
	}
	if sf.Macro {
		// expanded here, in the caller's state: parameters are bound to the translated arguments
		if sf.Body == nil {
			g.fail("macro %s has no body", name)
		}
		menv := &TEnv{g: g, vars: map[string]tvT{}, pkg: sf.Pkg, old: env.old, oldEntry: env.oldEntry, inOld: env.inOld, entryVars: env.entryVars,
			freshLo: env.freshLo, freshHi: env.freshHi}
		for i, a := range args {
			v := g.trans(a, env)
			if pt, _ := g.resolveType(sf.Params[i].Type, sf.Pkg); pt != nil && v.gt == nil {
				v.gt = pt
			}
			menv.vars[sf.Params[i].Name] = v
		}
		return g.trans(sf.Body, menv)
	}
	g.needSpec(sf)
	var as []string
	for i, a := range args {
		v := g.trans(a, env)
		pt, _ := g.resolveType(sf.Params[i].Type, sf.Pkg)
		if g.bv && v.lit != nil && pt != nil && isInteger(pt) {
			v.t = g.numBig(v.lit, pt)
		}
		if g.bv && pt == mathInt {
			v.t = g.asIdx(v)
		}
		as = append(as, v.t)
	}
	gt, so := g.resolveType(sf.Ret, sf.Pkg)
	if len(as) == 0 {
		return tvT{t: name, gt: gt, sort: so}
	}
	return tvT{t: fmt.Sprintf("(%s %s)", name, strings.Join(as, " ")), gt: gt, sort: so}
}

// emit the SMT definition of a spec function (once, dependencies first)
func (g *Gen) needSpec(sf *SpecFn) {
	key := "spec:" + sf.Name
	if g.prelSeen[key] {
		return
	}
	g.prelSeen[key] = true
	g.usedSpecs[sf.Name] = true
	env := &TEnv{g: g, vars: map[string]tvT{}, pkg: sf.Pkg}
	var ps, psorts []string
	for _, p := range sf.Params {
		gt, so := g.resolveType(p.Type, sf.Pkg)
		env.vars[p.Name] = tvT{t: p.Name, gt: gt, sort: so}
		ps = append(ps, fmt.Sprintf("(%s %s)", p.Name, so))
		psorts = append(psorts, so)
	}
	_, rs := g.resolveType(sf.Ret, sf.Pkg)
	if sf.Body == nil {
		if len(ps) == 0 {
			g.prel = append(g.prel, fmt.Sprintf("(declare-const %s %s)", sf.Name, rs))
		} else {
			g.prel = append(g.prel, fmt.Sprintf("(declare-fun %s (%s) %s)", sf.Name, strings.Join(psorts, " "), rs))
		}
		return
	}
	// table(G) / prefixsum(G): ite-chain over the initial value of package-level array G (obtained by eval)
	if sf.Body.Op == "call" && sf.Body.Args[0].Op == "id" && (sf.Body.Args[0].Val == "table" || sf.Body.Args[0].Val == "prefixsum") && len(sf.Params) == 1 {
		gname := sf.Body.Args[1].Val
		gf, ok := g.w.globalFacts[sf.Pkg.PkgPath+"."+gname]
		if !ok || len(gf.Elems) == 0 {
			g.fail("spec %s: no evaluated array value for global %s (declare it with //@ global)", sf.Name, gname)
		}
		k := sf.Params[0].Name
		var vals []*big.Int
		acc := big.NewInt(0)
		if sf.Body.Args[0].Val == "prefixsum" {
			vals = append(vals, new(big.Int).Set(acc))
		}
		for _, e := range gf.Elems {
			v, _ := new(big.Int).SetString(e, 10)
			if sf.Body.Args[0].Val == "prefixsum" {
				acc = new(big.Int).Add(acc, v)
				vals = append(vals, new(big.Int).Set(acc))
			} else {
				vals = append(vals, v)
			}
		}
		pt, _ := g.resolveType(sf.Params[0].Type, sf.Pkg)
		rt, _ := g.resolveType(sf.Ret, sf.Pkg)
		term := g.numBig(vals[len(vals)-1], rt)
		for i := len(vals) - 2; i >= 0; i-- {
			term = fmt.Sprintf("(ite %s %s %s)", g.le(k, g.numBig(big.NewInt(int64(i)), pt), true), g.numBig(vals[i], rt), term)
		}
		g.prel = append(g.prel, fmt.Sprintf("(define-fun %s (%s) %s %s)", sf.Name, strings.Join(ps, " "), rs, term))
		return
	}
	// placeholder index so dependencies come first
	body := g.trans(sf.Body, env)
	kw := "define-fun"
	if sf.Rec {
		kw = "define-fun-rec"
	} else {
		definedHeadMu.Lock()
		definedHead[sf.Name] = true // a macro for the solver: expanded before matching, so useless in a pattern
		definedHeadMu.Unlock()
	}
	g.prel = append(g.prel, fmt.Sprintf("(%s %s (%s) %s %s)", kw, sf.Name, strings.Join(ps, " "), rs, body.t))
}
