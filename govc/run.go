// Top-level generation for one function / lemma: two passes (component discovery, then generation).
package main

import (
	"fmt"
	"go/types"
	"sort"
	"strings"

	"golang.org/x/tools/go/ssa"
)

type FuncResult struct {
	Key     string
	Gen     *Gen
	Err     string
	Context string
}

func (w *World) genFunction(fn *ssa.Function, c *Contract) (res *FuncResult) {
	res = &FuncResult{Key: funcKey(fn)}
	defer func() {
		if r := recover(); r != nil {
			if te, ok := r.(transErr); ok {
				res.Err = "contract error: " + te.msg
				return
			}
			panic(r)
		}
	}()
	// pass 1: discover components
	g1 := newGen(w, fn, c)
	g1.run()
	// pass 2
	g := newGen(w, fn, c)
	for _, n := range sortedKeys(g1.comps) {
		if strings.HasPrefix(n, "L_") {
			continue
		}
		g.comp(n, g1.comps[n])
	}
	g.dts, g.dtSeen = g1.dts, g1.dtSeen
	g.run()
	for n := range g.comps {
		if _, ok := g1.comps[n]; !ok && !strings.HasPrefix(n, "L_") {
			g.note("component %s discovered only in pass 2", n)
		}
	}
	res.Gen = g
	return res
}

func (g *Gen) run() {
	fn, c := g.top, g.topC
	fr := newFrame(fn, c)
	g.fr = fr
	g.cur = map[string]string{}
	g.globalFacts()
	for _, p := range fn.Params {
		t := g.fresh("p_"+p.Name(), g.sortOf(p.Type()))
		fr.val[p] = t
		if inv := g.typeInv(t, p.Type(), true); inv != "true" {
			g.assumeAlways(inv)
		}
		fr.params[p.Name()] = tvT{t: t, gt: p.Type()}
	}
	for _, fv := range fn.FreeVars {
		t := g.fresh("fv_"+fv.Name(), g.sortOf(fv.Type()))
		fr.fvs[fv] = t
		if inv := g.typeInv(t, fv.Type(), true); inv != "true" {
			g.assumeAlways(inv)
		}
		fr.params[fv.Name()] = tvT{t: t, gt: fv.Type()}
	}
	g.topParams = map[string]tvT{}
	g.inputs = map[string]string{}
	for k, v := range fr.params {
		g.topParams[k] = v
		g.inputs[k] = v.t
	}
	g.evalLets(c, fr.params, true)
	for k, v := range fr.params {
		g.topParams[k] = v // lets are visible to known-finding input classes and replay terms
	}
	for _, u := range c.Using {
		if ul := g.w.DB.Lemmas[u]; ul != nil {
			g.assumeAlways(g.lemmaStmt(ul))
			g.usedLemmas[u] = true
			if ul.Axiom {
				g.assumptions["axiom "+u+" (assumed, not proved): "+ul.Body.String()] = true
			}
		} else {
			g.fail("unknown lemma %s in using", u)
		}
	}
	env := g.contractEnv()
	env.oldEntry = true
	pre := []string{}
	for _, r := range c.Requires {
		pre = append(pre, g.transBool(r.E, env))
	}
	for _, r := range c.Trusts {
		g.assumptions["trusted (unchecked) postcondition of "+g.fnName+": "+r.E.String()] = true
	}
	for _, r := range c.Assumes {
		pre = append(pre, g.transBool(r.E, env))
		g.assumptions["unchecked assumption about the callers of "+g.fnName+": "+r.E.String()] = true
	}
	g.curR = "true"
	if len(pre) > 0 {
		g.curR = g.define("reach_entry", "Bool", "(and "+strings.Join(pre, " ")+" true)")
		// requires are facts for the whole function
		g.assumeAlways(g.curR)
	}
	fr.entryR = g.curR
	g.cover("entry")
	g.prepareReplay()
	if fn.Blocks == nil {
		return
	}
	if c.StructuralOnly {
		li := loopsOf(fn)
		fr.loopK = li.ord
		g.structuralObs(fn, li)
		return
	}
	g.runFrame()
	// an `assert at <anchor>` whose anchor never occurred no longer binds to the code
	for _, ga := range c.GhostAts {
		if !g.firedAnchors["ghost:"+ga.Anchor] {
			g.curR = "true"
			g.ob("anchor-binding", "ghost", "false", "anchor `"+ga.Anchor+"` of a ghost update does not occur in the function any more")
		}
	}
	for _, a := range c.Asserts {
		if !g.firedAnchors[a.Anchor] {
			g.curR = "true"
			g.ob("anchor-binding", a.Label, "false", "anchor `"+a.Anchor+"` does not occur in the function any more")
		}
	}
}

// let-bindings of a contract, evaluated in the current (pre-)state and added to vars
func (g *Gen) evalLets(c *Contract, vars map[string]tvT, entry bool) {
	if c == nil {
		return
	}
	for _, l := range c.Lets {
		env := &TEnv{g: g, vars: vars, pkg: c.Pkg, oldEntry: entry}
		v := g.trans(l.E, env)
		name := g.define("let_"+l.Label, g.sortOfTv(v), v.t)
		v.t = name
		v.lit = nil
		vars[l.Label] = v
	}
}

// frame obligations at a return point: everything outside `assigns` is unchanged
func (g *Gen) frameObligations(env *TEnv) {
	c := g.fr.c
	if c == nil || c.AssignsAll || c.Abstract {
		return
	}
	// targets evaluated in the pre-state
	penv := &TEnv{g: g, vars: env.vars, pkg: env.pkg, oldEntry: true, inOld: true}
	tgs := g.assignTargets(c, penv)
	byComp := map[string][]target{}
	for _, t := range tgs {
		byComp[t.comp] = append(byComp[t.comp], t)
	}
	for _, n := range sortedKeys(g.comps) {
		if strings.HasPrefix(n, "L_") {
			continue
		}
		cur := g.heapGet(n)
		if cur == g.entry[n] {
			continue
		}
		whole := false
		for _, t := range byComp[n] {
			if t.whole {
				whole = true
			}
		}
		if whole {
			continue
		}
		if strings.HasPrefix(n, "GH_") && !strings.HasPrefix(g.comps[n], "(Array Int ") {
			g.ob("frame", n, fmt.Sprintf("(= %s %s)", cur, g.entry[n]), "ghost "+n+" unchanged (not in assigns)")
			continue
		}
		sk := g.fresh("frame_r", "Int")
		conds := []string{fmt.Sprintf("(< 0 %s)", sk), fmt.Sprintf("(< %s %s)", sk, refBound)}
		if strings.HasPrefix(n, "GS_") {
			conds = []string{"true"} // abstract state map: every key
		}
		for _, t := range byComp[n] {
			conds = append(conds, fmt.Sprintf("(not (= %s %s))", sk, t.ref))
		}
		g.ob("frame", n, fmt.Sprintf("(=> (and %s) (= (select %s %s) (select %s %s)))", strings.Join(conds, " "), cur, sk, g.entry[n], sk), n+" unchanged outside assigns")
	}
}

// assigns targets of a contract, evaluated in env
func (g *Gen) assignTargets(ct *Contract, env *TEnv) []target {
	var out []target
	for _, a := range ct.Assigns {
		out = append(out, g.targetsOf(a, env)...)
	}
	return out
}

func (g *Gen) targetsOf(a *Expr, env *TEnv) []target {
	switch a.Op {
	case "id":
		if gv, ok := g.w.DB.Ghosts[a.Val]; ok {
			n, _, _ := g.ghostComp(gv)
			return []target{{comp: n, whole: true}}
		}
		// a pointer variable p: everything it points to
		v := g.trans(a, env)
		if pt, ok := v.gt.Underlying().(*types.Pointer); ok {
			return g.objTargets(v.t, pt.Elem())
		}
	case "un":
		if a.Val == "*" {
			v := g.trans(a.Args[0], env)
			if pt, ok := v.gt.Underlying().(*types.Pointer); ok {
				return g.objTargets(v.t, pt.Elem())
			}
		}
	case "call":
		if a.Args[0].Op == "id" && a.Args[0].Val == "mem" {
			v := g.trans(a.Args[1], env)
			var et types.Type
			if st, ok := v.gt.Underlying().(*types.Slice); ok {
				et = st.Elem()
			} else if pt, ok := v.gt.Underlying().(*types.Pointer); ok {
				if arr, ok := pt.Elem().Underlying().(*types.Array); ok {
					c, _ := g.memComp(arr.Elem())
					return []target{{comp: c, ref: v.t}}
				}
			}
			if et == nil {
				g.fail("mem() target must be a slice: %s", a)
			}
			c, _ := g.memComp(et)
			return []target{{comp: c, ref: fmt.Sprintf("(base %s)", v.t)}}
		}
		if a.Args[0].Op == "id" && a.Args[0].Val == "mapof" {
			v := g.trans(a.Args[1], env)
			var out []target
			for _, c := range g.mapComps(v.gt) {
				out = append(out, target{comp: c, ref: v.t})
			}
			return out
		}
	case "idx":
		// ghost map entry: bigval[p]
		if a.Args[0].Op == "id" {
			if gv, ok := g.w.DB.Ghosts[a.Args[0].Val]; ok {
				n, _, so := g.ghostComp(gv)
				if strings.HasPrefix(so, "(Array Int ") {
					k := g.trans(a.Args[1], env)
					return []target{{comp: n, ref: k.t}}
				}
			}
		}
	case "sel":
		x := g.trans(a.Args[0], env)
		if pt, ok := x.gt.Underlying().(*types.Pointer); ok {
			_, path := findField(pt.Elem(), a.Val)
			if path == nil {
				g.fail("assigns: no field %s", a.Val)
			}
			r := x.t
			cur := pt.Elem()
			for k, fi := range path {
				ft := cur.Underlying().(*types.Struct).Field(fi).Type()
				if isAggregate(ft) {
					r = g.subRef(cur, fi, r)
					cur = ft
					if k == len(path)-1 {
						return g.objTargets(r, cur)
					}
					continue
				}
				c, _ := g.fieldComp(cur, fi)
				return []target{{comp: c, ref: r}}
			}
		}
	}
	g.fail("unsupported assigns target %s", a)
	return nil
}

func (g *Gen) objTargets(r string, t types.Type) []target {
	switch u := t.Underlying().(type) {
	case *types.Struct:
		var out []target
		for i := 0; i < u.NumFields(); i++ {
			ft := u.Field(i).Type()
			if isAggregate(ft) {
				out = append(out, g.objTargets(g.subRef(t, i, r), ft)...)
			} else {
				c, _ := g.fieldComp(t, i)
				out = append(out, target{comp: c, ref: r})
			}
		}
		return out
	case *types.Array:
		c, _ := g.memComp(u.Elem())
		return []target{{comp: c, ref: r}}
	}
	c, _ := g.cellComp(t)
	return []target{{comp: c, ref: r}}
}

// static component names a contract's assigns may touch (for loop havoc)
func (g *Gen) assignComps(ct *Contract) []string {
	var out []string
	defer func() {
		if r := recover(); r != nil {
			if _, ok := r.(transErr); ok {
				// cannot resolve statically: havoc everything
				for n := range g.comps {
					if !strings.HasPrefix(n, "L_") && !strings.HasPrefix(n, "GH_") {
						out = append(out, n)
					}
				}
				return
			}
			panic(r)
		}
	}()
	if len(ct.Assigns) == 0 {
		return nil
	}
	fn := g.w.Funcs[ct.Key]
	env := &TEnv{g: g, vars: map[string]tvT{}, pkg: ct.Pkg}
	if fn != nil {
		for _, p := range fn.Params {
			env.vars[p.Name()] = tvT{t: g.zeroValue(p.Type()), gt: p.Type()}
		}
	} else {
		return g.assignCompsIface(ct)
	}
	save := len(g.defs)
	for _, t := range g.assignTargets(ct, env) {
		out = append(out, t.comp)
	}
	g.defs = g.defs[:save]
	return out
}

func (g *Gen) assignCompsIface(ct *Contract) []string {
	var out []string
	for _, a := range ct.Assigns {
		if a.Op == "id" {
			if gv, ok := g.w.DB.Ghosts[a.Val]; ok {
				n, _, _ := g.ghostComp(gv)
				out = append(out, n)
				continue
			}
		}
		panic(transErr{"interface assigns must be ghost variables"})
	}
	return out
}

// ---------- global initial values ----------

type GlobalFact struct {
	Pkg, Name string
	Scalar    string
	Elems     []string
}

func (g *Gen) globalFacts() {
	for _, gf := range g.w.globals() {
		p := g.w.Prog.ImportedPackage(gf.Pkg)
		if p == nil {
			continue
		}
		m, ok := p.Members[gf.Name].(*ssa.Global)
		if !ok {
			continue
		}
		et := m.Type().(*types.Pointer).Elem()
		ref := g.globalRef(m)
		switch u := et.Underlying().(type) {
		case *types.Array:
			if !isInteger(u.Elem()) {
				continue
			}
			c, _ := g.memComp(u.Elem())
			for i, v := range gf.Elems {
				bi, _ := parseBigInt(v)
				g.assumeAlways(fmt.Sprintf("(= (select (select %s %s) %s) %s)", g.entry[c], ref, g.idx(int64(i)), g.numBig(bi, u.Elem())))
			}
		default:
			if isInteger(et) {
				c, _ := g.cellComp(et)
				bi, _ := parseBigInt(gf.Scalar)
				g.assumeAlways(fmt.Sprintf("(= (select %s %s) %s)", g.entry[c], ref, g.numBig(bi, et)))
			}
		}
	}
}

func (w *World) globals() []GlobalFact {
	var out []GlobalFact
	for _, k := range sortedGF(w.globalFacts) {
		out = append(out, w.globalFacts[k])
	}
	return out
}

func sortedGF(m map[string]GlobalFact) []string {
	var ks []string
	for k := range m {
		ks = append(ks, k)
	}
	sort.Strings(ks)
	return ks
}
