// `govc check <id>`: verify every function / lemma of a property, report, write evidence.
package main

import (
	"encoding/json"
	"fmt"
	"os"
	"path/filepath"
	"sort"
	"strings"
	"time"

	"golang.org/x/tools/go/ssa"
)

// vacuity covers: entry reachable under requires; every return reachable
func (g *Gen) vacuityObs() []*Oblig {
	var out []*Oblig
	for _, c := range g.covers {
		out = append(out, c)
	}
	return out
}

func (g *Gen) cover(label string) {
	o := &Oblig{Name: g.fnName + "/cover#" + label, Kind: "vacuity", Fn: g.fnName, Guard: g.curR, Prop: "false", Ctx: len(g.defs), Desc: "reachability of " + label + " (must be satisfiable)", gen: g, RetID: g.inRet}
	g.covers = append(g.covers, o)
}

func (w *World) genLemma(lm *Lemma) (g *Gen, obs []*Oblig, err error) {
	defer func() {
		if r := recover(); r != nil {
			if te, ok := r.(transErr); ok {
				err = fmt.Errorf("lemma %s: %s", lm.Name, te.msg)
				return
			}
			panic(r)
		}
	}()
	c := &Contract{Key: "lemma:" + lm.Name, Mode: lm.Mode, Pkg: lm.Pkg, Loops: map[int]*LoopC{}}
	g = newGen(w, nil, c)
	g.fnName = "lemma:" + lm.Name
	g.fr = newFrame(nil, c)
	g.curR = "true"
	env := &TEnv{g: g, vars: map[string]tvT{}, pkg: lm.Pkg}
	for _, u := range lm.Using {
		ul := w.DB.Lemmas[u]
		if ul == nil {
			return nil, nil, fmt.Errorf("lemma %s uses unknown lemma %s", lm.Name, u)
		}
		g.assumeAlways(g.lemmaStmt(ul))
	}
	for _, v := range lm.Vars {
		gt, so := g.resolveType(v.Type, lm.Pkg)
		t := g.fresh("v_"+v.Name, so)
		if gt != nil && gt != mathInt {
			if inv := g.typeInv(t, gt, false); inv != "true" {
				g.assumeAlways(inv)
			}
		}
		env.vars[v.Name] = tvT{t: t, gt: gt, sort: so}
	}
	if lm.Induct != "" {
		// proof by induction on the natural number k: the base case k = 0, and the step in which the
		// statement at k (for ALL values of the other variables) is the hypothesis for k + 1
		kv, ok := env.vars[lm.Induct]
		if !ok || g.bv {
			return nil, nil, fmt.Errorf("lemma %s: induction variable %s must be an Int binder of an int-mode lemma", lm.Name, lm.Induct)
		}
		save := env.vars[lm.Induct]
		env.vars[lm.Induct] = tvT{t: "0", gt: kv.gt, sort: kv.sort}
		g.ob("lemma-base", "", g.transBool(lm.Body, env), lm.Induct+" == 0: "+lm.Body.String())
		env.vars[lm.Induct] = save
		g.assumeAlways(fmt.Sprintf("(<= 0 %s)", kv.t))
		henv := &TEnv{g: g, vars: map[string]tvT{}, pkg: lm.Pkg}
		var bs []string
		for _, v := range lm.Vars {
			if v.Name == lm.Induct {
				henv.vars[v.Name] = kv
				continue
			}
			gt, so := g.resolveType(v.Type, lm.Pkg)
			name := "ih_" + v.Name
			henv.vars[v.Name] = tvT{t: name, gt: gt, sort: so}
			bs = append(bs, fmt.Sprintf("(%s %s)", name, so))
		}
		ih := g.transBool(lm.Body, henv)
		if len(bs) > 0 {
			ih = fmt.Sprintf("(forall (%s) %s)", strings.Join(bs, " "), ih)
		}
		g.assumeAlways(ih)
		env.vars[lm.Induct] = tvT{t: fmt.Sprintf("(+ %s 1)", kv.t), gt: kv.gt, sort: kv.sort}
		g.ob("lemma-step", "", g.transBool(lm.Body, env), lm.Induct+" -> "+lm.Induct+" + 1: "+lm.Body.String())
		return g, g.obs, nil
	}
	p := g.transBool(lm.Body, env)
	g.ob("lemma", "", p, lm.Body.String())
	return g, g.obs, nil
}

// universally quantified statement of a lemma (for `using`)
func (g *Gen) lemmaStmt(lm *Lemma) string {
	if g.bv != (lm.Mode == "bv") {
		g.fail("lemma %s is in %s mode", lm.Name, lm.Mode)
	}
	env := &TEnv{g: g, vars: map[string]tvT{}, pkg: lm.Pkg}
	var bs []string
	var ranges []string
	for _, v := range lm.Vars {
		gt, so := g.resolveType(v.Type, lm.Pkg)
		name := "lq_" + lm.Name + "_" + v.Name
		env.vars[v.Name] = tvT{t: name, gt: gt, sort: so}
		bs = append(bs, fmt.Sprintf("(%s %s)", name, so))
		if gt != nil && gt != mathInt {
			if inv := g.typeInv(name, gt, false); inv != "true" {
				ranges = append(ranges, inv)
			}
		}
		if v.Name == lm.Induct {
			ranges = append(ranges, fmt.Sprintf("(<= 0 %s)", name)) // proved for the naturals only
		}
	}
	body := g.transBool(lm.Body, env)
	if len(ranges) > 0 {
		body = fmt.Sprintf("(=> (and %s) %s)", strings.Join(ranges, " "), body)
	}
	if len(bs) == 0 {
		return body
	}
	return fmt.Sprintf("(forall (%s) %s)", strings.Join(bs, " "), body)
}

type KnownFinding struct {
	Property   string `json:"property"`
	Obligation string `json:"obligation"`
	InputClass string `json:"input_class"` // contract expression over the function's parameters; "" = any
	What       string `json:"what"`
	Status     string `json:"status"` // finding | fixed
	Commit     string `json:"commit,omitempty"`
}

type KnownFindings struct {
	Findings []KnownFinding `json:"findings"`
}

func loadKnown() *KnownFindings {
	kf := &KnownFindings{}
	b, err := os.ReadFile(filepath.Join(verifRoot(), "known_findings.json"))
	if err == nil {
		json.Unmarshal(b, kf)
	}
	return kf
}

type Evidence struct {
	PropertyID  string                 `json:"property_id"`
	Tier        string                 `json:"tier"`
	Seed        int                    `json:"seed"`
	Level       string                 `json:"level"`
	Coverage    map[string]interface{} `json:"coverage"`
	Assumptions []string               `json:"assumptions"`
	WallS       float64                `json:"wall_s"`
	Violations  int                    `json:"violations"`
}

type checkOpts struct {
	overlay  map[string][]byte
	selftest string // non-empty: mutant name; no evidence is written, no replay
	result   *checkResult
}

type checkResult struct {
	violations []string
	known      []string
	nOb, nDis  int
	failed     []string // names of failed obligations
}

func cmdCheck(args []string) int {
	return runCheck(args, &checkOpts{})
}

func runCheck(args []string, opts *checkOpts) int {
	t0 := time.Now()
	if len(args) < 1 {
		fmt.Println("usage: govc check <id> [--tier quick|thorough]")
		return 2
	}
	id := args[0]
	tier := os.Getenv("VERIF_TIER")
	for i, a := range args {
		if a == "--tier" && i+1 < len(args) {
			tier = args[i+1]
		}
	}
	if tier != "thorough" {
		tier = "quick"
	}
	seed := 0
	fmt.Sscanf(os.Getenv("VERIF_SEED"), "%d", &seed)
	prop, err := loadProp(id)
	if err != nil {
		fmt.Println("cannot load property config:", err)
		return 2
	}
	timeout := 20
	if prop.TimeoutQuick > 0 {
		timeout = prop.TimeoutQuick
	}
	if tier == "thorough" {
		timeout = 120
	}
	outDir := filepath.Join(verifRoot(), "out", id)
	replayDir := filepath.Join(verifRoot(), "replays", id)
	if opts.selftest != "" {
		outDir = filepath.Join(verifRoot(), "out", "selftest", id+"-"+opts.selftest)
		replayDir = filepath.Join(outDir, "replays")
	}
	os.RemoveAll(outDir)
	os.RemoveAll(replayDir)
	os.MkdirAll(outDir, 0755)
	os.MkdirAll(replayDir, 0755)

	var violations []string // lines
	nviol := 0
	bindFail := func(what string) {
		nviol++
		rp := filepath.Join(replayDir, fmt.Sprintf("binding-%d.json", nviol))
		writeJSON(rp, map[string]interface{}{"property": id, "obligation": "binding", "reason": what, "note": "a contract could not be bound to the current source; the proof no longer applies"})
		violations = append(violations, fmt.Sprintf("VIOLATION property=%s replay=%s obligation=binding (%s) no-failing-input-found", id, rp, what))
	}

	replayOverlay = opts.overlay
	activeProfile = prop.Profile
	w, err := loadWorld(prop.Packages, opts.overlay)
	if err != nil {
		// the tree does not type-check: nothing can be verified
		fmt.Println("load error:", err)
		bindFail("packages do not load: " + trunc(err.Error(), 300))
		return finish(id, tier, seed, prop, nil, nil, violations, nil, t0, nil, opts)
	}
	for _, e := range w.DB.Errors {
		bindFail("contract file error: " + e)
	}
	if err := w.evalGlobals(); err != nil {
		bindFail("evaluation of package initial values failed: " + err.Error())
	}
	var all []*Oblig
	var gens []*Gen
	bounded := map[string]bool{}
	for _, b := range prop.Bounded {
		bounded[b] = true
	}
	genOne := func(k string, sweep bool) {
		key := fullKey(k)
		fn := w.Funcs[key]
		if fn == nil {
			bindFail("function not found: " + k)
			return
		}
		c := w.DB.Funcs[key]
		if c == nil {
			if !sweep {
				bindFail("no contract for " + k)
				return
			}
			c = &Contract{Key: key, Loops: map[int]*LoopC{}, Pkg: w.ByPath[fn.Pkg.Pkg.Path()]}
		}
		if c.Trusted != "" {
			bindFail("function " + k + " is listed for verification but its contract is trusted")
			return
		}
		res := w.genFunction(fn, c)
		if res.Err != "" {
			bindFail(k + ": " + res.Err)
			return
		}
		g := res.Gen
		for _, o := range g.obs {
			if bounded[k] {
				o.Bounded = true
			}
		}
		all = append(all, g.obs...)
		all = append(all, g.vacuityObs()...)
		gens = append(gens, g)
	}
	for _, k := range prop.Functions {
		genOne(k, false)
	}
	for _, k := range prop.Sweep {
		genOne(k, true)
	}
	for _, ln := range prop.Lemmas {
		lm := w.DB.Lemmas[ln]
		if lm == nil {
			bindFail("lemma not found: " + ln)
			continue
		}
		if lm.Axiom {
			continue
		}
		g, obs, err := w.genLemma(lm)
		if err != nil {
			bindFail(err.Error())
			continue
		}
		all = append(all, obs...)
		gens = append(gens, g)
	}
	if len(prop.OutOfScope) > 0 {
		var keep []*Oblig
		for _, o := range all {
			drop := false
			for _, sub := range prop.OutOfScope {
				if strings.Contains(o.Name, sub) {
					drop = true
				}
			}
			if !drop {
				keep = append(keep, o)
			}
		}
		all = keep
	}
	{
		// obligations recorded as known findings are expected NOT to discharge: a short attempt is enough for
		// them (what decides is the re-run with the recorded input class excluded, at the full timeout)
		var kfObs, rest []*Oblig
		for _, o := range all {
			if isKnownFindingName(o.Name) && tier != "thorough" {
				kfObs = append(kfObs, o)
			} else {
				rest = append(rest, o)
			}
		}
		short := timeout
		if short > 10 {
			short = 10
		}
		solveAll(kfObs, outDir, short, 12)
		solveAll(rest, outDir, timeout, 12)
	}
	for _, br := range prop.BoundedRuns {
		o := &Oblig{Name: br.Name, Kind: "bounded-run", Fn: br.Function, Desc: br.Bound, Bounded: true}
		tb := time.Now()
		src, err := os.ReadFile(filepath.Join(verifRoot(), br.File))
		if err != nil {
			bindFail("bounded run source missing: " + br.File)
			continue
		}
		os.Setenv("GOVC_TIER", tier)
		overlayTestTimeout = 600
		overlayTestScratchCwd = true
		out, vals := runOverlayTest(filepath.Join(repoDir(), br.Dir), "zz_verif_"+filepath.Base(br.File), string(src), br.Test, "GOVC-BOUNDED ")
		overlayTestTimeout = 60
		overlayTestScratchCwd = false
		o.Ms = time.Since(tb).Milliseconds()
		o.Solver = "go test (bounded run)"
		all = append(all, o)
		if vals != nil && vals["ok"] == true {
			o.Status = "unsat"
			o.Desc = fmt.Sprintf("%s; covered: %v", br.Bound, vals)
			continue
		}
		o.Status = "failed"
		nviol++
		rp := filepath.Join(replayDir, fileSafe(br.Name)+".json")
		suffix := ""
		if vals == nil {
			suffix = " no-failing-input-found"
		}
		writeJSON(rp, map[string]interface{}{"property": id, "obligation": br.Name, "bounded": true, "bound": br.Bound, "test_source": filepath.Join(verifRoot(), br.File), "package_dir": br.Dir, "test": br.Test, "failing_input": vals, "output": trunc(out, 4000),
			"how_to_rerun": "copy test_source into package_dir (any *_test.go name) and run go test -run " + br.Test})
		violations = append(violations, fmt.Sprintf("VIOLATION property=%s replay=%s obligation=%s status=bounded-run-failed%s", id, rp, br.Name, suffix))
	}
	known := loadKnown()
	var knownLines []string
	for _, o := range all {
		if o.Kind == "bounded-run" {
			continue
		}
		if o.Kind == "vacuity" {
			if o.Status == "unsat" && o.gen != nil && o.gen.fr != nil && o.gen.fr.c != nil && o.gen.fr.c.Dead[o.Name[strings.LastIndex(o.Name, "#")+1:]] {
				o.Status = "sat" // declared dead code, and proved unreachable: as expected
				o.Solver += "/dead"
				continue
			}
			if o.Status == "unsat" {
				nviol++
				rp := filepath.Join(replayDir, fileSafe(o.Name)+".json")
				writeJSON(rp, map[string]interface{}{"property": id, "obligation": o.Name, "reason": "vacuity: the point is unreachable under the contract's preconditions (contradictory requires/assumptions)", "smt_file": o.File})
				violations = append(violations, fmt.Sprintf("VIOLATION property=%s replay=%s obligation=%s (vacuous: unreachable) no-failing-input-found", id, rp, o.Name))
			}
			continue
		}
		if o.Status == "unsat" {
			continue
		}
		// failed obligation: known finding?
		matched := false
		for _, kf := range known.Findings {
			if kf.Property != id || kf.Status != "finding" || kf.Obligation != o.Name {
				continue
			}
			if o.gen.matchesKnown(o, kf, timeout) {
				matched = true
				knownLines = append(knownLines, fmt.Sprintf("KNOWN-FINDING: property=%s %s [%s]", id, kf.What, o.Name))
				o.Status = "known-finding:" + o.Status
				break
			}
		}
		if matched {
			continue
		}
		nviol++
		if opts.result != nil {
			opts.result.failed = append(opts.result.failed, o.Name+" ["+o.Status+"]")
		}
		rp, confirmed := "", false
		if opts.selftest == "" || os.Getenv("GOVC_SELFTEST_REPLAY") != "" {
			rp, confirmed = replayOblig(w, id, o, replayDir, timeout)
		}
		suffix := ""
		if !confirmed {
			suffix = " no-failing-input-found"
		}
		violations = append(violations, fmt.Sprintf("VIOLATION property=%s replay=%s obligation=%s status=%s%s", id, rp, o.Name, o.Status, suffix))
	}
	return finish(id, tier, seed, prop, all, gens, violations, knownLines, t0, w, opts)
}

func writeJSON(path string, v interface{}) {
	b, _ := json.MarshalIndent(v, "", " ")
	os.WriteFile(path, b, 0644)
}

// known finding matches if the obligation becomes provable once the listed input class is excluded
func (g *Gen) matchesKnown(o *Oblig, kf KnownFinding, timeout int) (ok bool) {
	if kf.InputClass == "" {
		return true
	}
	defer func() {
		if r := recover(); r != nil {
			ok = false
		}
	}()
	e, err := ParseExpr(kf.InputClass)
	if err != nil {
		return false
	}
	env := &TEnv{g: g, vars: g.topParams, pkg: g.topC.Pkg, oldEntry: true, inOld: true}
	nd := len(g.defs)
	cls := g.transBool(e, env)
	g.defs = g.defs[:nd]
	o2 := *o
	o2.Guard = fmt.Sprintf("(and %s (not %s))", o.Guard, cls)
	o2.Name = o.Name + "-excl"
	o2.Status = ""
	obs := []*Oblig{&o2}
	solveAll(obs, filepath.Dir(o.File), timeout, 1)
	return o2.Status == "unsat"
}

func finish(id, tier string, seed int, prop *Prop, all []*Oblig, gens []*Gen, violations, knownLines []string, t0 time.Time, w *World, opts *checkOpts) int {
	nOb, nDis, nBounded, nBoundedOK, nKnown := 0, 0, 0, 0, 0
	covers, coversReached := 0, 0
	var solverMs int64
	bySolver := map[string]int{}
	var perOb []map[string]interface{}
	var samples []interface{}
	funcs := map[string]bool{}
	for _, o := range all {
		solverMs += o.Ms
		if o.Kind == "vacuity" {
			covers++
			if o.Status == "sat" {
				coversReached++
			}
			continue
		}
		funcs[o.Fn] = true
		if strings.HasPrefix(o.Status, "known-finding") {
			nKnown++
			perOb = append(perOb, map[string]interface{}{"name": o.Name, "kind": o.Kind, "status": o.Status, "solver": o.Solver, "time_ms": o.Ms})
			continue
		}
		if o.Bounded {
			nBounded++
			if o.Status == "unsat" {
				nBoundedOK++
			}
		} else {
			nOb++
			if o.Status == "unsat" {
				nDis++
				bySolver[o.Solver]++
			}
		}
		perOb = append(perOb, map[string]interface{}{"name": o.Name, "kind": o.Kind, "status": o.Status, "solver": o.Solver, "time_ms": o.Ms, "bounded": o.Bounded})
		if len(samples) < 4 && o.Status == "unsat" && (o.Kind == "ensures" || o.Kind == "lemma" || o.Kind == "assert") {
			samples = append(samples, map[string]interface{}{"obligation": o.Name, "clause": o.Desc, "smt_file": o.File, "solver": o.Solver, "time_ms": o.Ms})
		}
	}
	if len(samples) == 0 {
		for _, o := range all {
			if o.Kind != "vacuity" && len(samples) < 3 {
				samples = append(samples, map[string]interface{}{"obligation": o.Name, "clause": o.Desc, "smt_file": o.File, "status": o.Status})
			}
		}
	}
	if len(samples) == 0 {
		samples = append(samples, "no obligations were generated")
	}
	var fl []string
	for f := range funcs {
		fl = append(fl, f)
	}
	sort.Strings(fl)
	assum := map[string]bool{}
	trusted := map[string]bool{}
	inlined := map[string]bool{}
	var notes []string
	for _, g := range gens {
		for a := range g.assumptions {
			assum[a] = true
		}
		for a := range g.trustedUsed {
			trusted[a] = true
		}
		for a := range g.inlinedFns {
			inlined[a] = true
		}
		for _, n := range uniq(g.notes) {
			notes = append(notes, g.fnName+": "+n)
		}
	}
	assumptions := append([]string{}, prop.Assumptions...)
	for _, a := range sortedBoolKeys(assum) {
		assumptions = append(assumptions, a)
	}
	for _, a := range sortedBoolKeys(trusted) {
		assumptions = append(assumptions, "trusted contract (assumed, body not verified): "+a)
	}
	assumptions = append(assumptions,
		"sequential semantics: locks/atomics are no-ops, no other goroutine writes the objects a function reads",
		"go/packages + go/ssa (x/tools v0.29.0) SSA means what the compiled code means; z3 4.8.12, z3 5.1.0 and cvc5 1.0 are sound",
		"the VC generator govc itself (mitigated by the must-fail selftest corpus and vacuity covers)",
		"termination is proved only where a decreases clause is stated")
	if w != nil && len(w.globalFacts) > 0 {
		var gl []string
		for k := range w.globalFacts {
			gl = append(gl, shortFn(k))
		}
		sort.Strings(gl)
		assumptions = append(assumptions, "package-level variables used as constants keep the value the real package initialisers give them (obtained by running them): "+strings.Join(gl, ", "))
	}
	// minimum obligation count: a contract that silently stopped binding generates fewer obligations
	if prop.MinObligations > 0 && nOb+nBounded < prop.MinObligations && len(violations) == 0 {
		rp := filepath.Join(verifRoot(), "replays", id, "obligation-count.json")
		writeJSON(rp, map[string]interface{}{"property": id, "obligation": "obligation-count", "reason": fmt.Sprintf("only %d obligations generated, expected at least %d", nOb+nBounded, prop.MinObligations)})
		violations = append(violations, fmt.Sprintf("VIOLATION property=%s replay=%s obligation=obligation-count (%d < %d) no-failing-input-found", id, rp, nOb+nBounded, prop.MinObligations))
	}
	level := prop.Level
	if level == "" {
		level = "proof"
	}
	cov := map[string]interface{}{
		"obligations":              nOb,
		"discharged":               nDis + nKnown*0,
		"known_findings_matched":   nKnown,
		"checker_cmd":              fmt.Sprintf("%s/bin/govc check %s --tier %s  (per obligation: z3-new | z3 | cvc5 raced on %s/out/%s/*.smt2)", verifRoot(), id, tier, verifRoot(), id),
		"trusted_base":             append([]string{"go/ssa (x/tools v0.29.0)", "govc VC generator", "z3 4.8.12 / z3 5.1.0 / cvc5 1.0.x"}, prop.TrustedBase...),
		"functions_under_contract": fl,
		"inlined_callees":          sortedBoolKeys(inlined),
		"discharged_by_solver":     bySolver,
		"solver_time_s":            float64(solverMs) / 1000.0,
		"bounded":                  map[string]interface{}{"obligations": nBounded, "discharged": nBoundedOK, "functions": prop.Bounded, "runs": prop.BoundedRuns, "note": "bounded obligations are never counted in obligations/discharged"},
		"vacuity":                  map[string]interface{}{"covers": covers, "covers_reached": coversReached},
		"per_obligation":           perOb,
		"samples":                  samples,
		"translation_notes":        uniq(notes),
		"arithmetic":               "per function: `arith int` = mathematical integers with explicit wrap-around; `arith bv` = fixed-width bit-vectors (exact machine arithmetic)",
		"exhaustive":               false,
	}
	if level != "proof" {
		cov["explanation"] = prop.Explanation
	}
	if opts.result != nil {
		opts.result.violations, opts.result.known, opts.result.nOb, opts.result.nDis = violations, knownLines, nOb, nDis
	}
	if opts.selftest != "" {
		if len(violations) > 0 {
			return 1
		}
		return 0
	}
	if tier == "thorough" {
		cov["selftest"] = runSelftestFor(id)
	}
	ev := &Evidence{PropertyID: id, Tier: tier, Seed: seed, Level: level, Coverage: cov, Assumptions: assumptions, WallS: time.Since(t0).Seconds(), Violations: len(violations)}
	os.MkdirAll(filepath.Join(verifRoot(), "evidence"), 0755)
	writeJSON(filepath.Join(verifRoot(), "evidence", id+".json"), ev)
	for _, l := range knownLines {
		fmt.Println(l)
	}
	fmt.Printf("property %s tier %s: %d obligations, %d discharged, %d known findings, %d bounded (%d ok), %d covers (%d reached), %.1fs\n", id, tier, nOb, nDis, nKnown, nBounded, nBoundedOK, covers, coversReached, time.Since(t0).Seconds())
	if len(violations) > 0 {
		for _, v := range violations {
			fmt.Println(v)
		}
		return 1
	}
	return 0
}

var _ = ssa.BuilderMode(0)
