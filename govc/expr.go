// Contract expression language: lexer, parser, AST.
//
// Go-like expressions extended with ==>, <==>, forall/exists, old(e), and a raw
// SMT escape smt[Sort]"...". Translation to SMT-LIB is in trans.go.
package main

import (
	"fmt"
	"strings"
)

type Binder struct {
	Name string
	Type *TypeX
}

// TypeX is a parsed spec-level type.
type TypeX struct {
	Kind string // "name", "slice", "array", "ptr", "map"
	Name string // for "name": Int, int, uint64, bool, Ref, pkg.T, T
	Len  int64
	Elem *TypeX
	Key  *TypeX
}

func (t *TypeX) String() string {
	switch t.Kind {
	case "name":
		return t.Name
	case "slice":
		return "[]" + t.Elem.String()
	case "array":
		return fmt.Sprintf("[%d]%s", t.Len, t.Elem.String())
	case "ptr":
		return "*" + t.Elem.String()
	case "map":
		return "map[" + t.Key.String() + "]" + t.Elem.String()
	}
	return "?"
}

type Expr struct {
	Op   string // lit, id, smt, sel, idx, slice, call, un, bin, forall, exists, ite
	Val  string // literal text, identifier, operator, field name, raw smt
	Sort string // for smt escape
	Args []*Expr
	Vars []Binder
	Src  string
}

func (e *Expr) String() string {
	if e == nil {
		return "<nil>"
	}
	switch e.Op {
	case "strlit":
		return "\"" + e.Val + "\""
	case "lit", "id":
		return e.Val
	case "smt":
		return "smt[" + e.Sort + "]\"" + e.Val + "\""
	case "sel":
		return e.Args[0].String() + "." + e.Val
	case "idx":
		return e.Args[0].String() + "[" + e.Args[1].String() + "]"
	case "slice":
		return e.Args[0].String() + "[" + e.Args[1].String() + ":" + e.Args[2].String() + "]"
	case "call":
		var as []string
		for _, a := range e.Args[1:] {
			as = append(as, a.String())
		}
		return e.Args[0].String() + "(" + strings.Join(as, ", ") + ")"
	case "un":
		return e.Val + e.Args[0].String()
	case "bin":
		return "(" + e.Args[0].String() + " " + e.Val + " " + e.Args[1].String() + ")"
	case "forall", "exists":
		var vs []string
		for _, v := range e.Vars {
			vs = append(vs, v.Name+" "+v.Type.String())
		}
		return "(" + e.Op + " " + strings.Join(vs, ", ") + " :: " + e.Args[0].String() + ")"
	}
	return "?" + e.Op
}

type tok struct {
	kind string // int, id, op, str, eof
	text string
	pos  int
}

type lexer struct {
	src  string
	toks []tok
	p    int
}

var ops3 = []string{"<==>", "==>", "&^", "<<", ">>", "==", "!=", "<=", ">=", "&&", "||", "::", ".."}

func lex(src string) ([]tok, error) {
	var toks []tok
	i := 0
	for i < len(src) {
		c := src[i]
		switch {
		case c == ' ' || c == '\t' || c == '\n' || c == '\r':
			i++
		case c >= '0' && c <= '9':
			j := i
			if c == '0' && j+1 < len(src) && (src[j+1] == 'x' || src[j+1] == 'X') {
				j += 2
				for j < len(src) && (isHex(src[j]) || src[j] == '_') {
					j++
				}
			} else {
				for j < len(src) && (src[j] >= '0' && src[j] <= '9' || src[j] == '_') {
					j++
				}
			}
			toks = append(toks, tok{"int", strings.ReplaceAll(src[i:j], "_", ""), i})
			i = j
		case isIdStart(c):
			j := i
			for j < len(src) && (isIdStart(src[j]) || src[j] >= '0' && src[j] <= '9') {
				j++
			}
			toks = append(toks, tok{"id", src[i:j], i})
			i = j
		case c == '"':
			j := i + 1
			for j < len(src) && src[j] != '"' {
				j++
			}
			if j >= len(src) {
				return nil, fmt.Errorf("unterminated string at %d", i)
			}
			toks = append(toks, tok{"str", src[i+1 : j], i})
			i = j + 1
		default:
			matched := false
			for _, o := range ops3 {
				if strings.HasPrefix(src[i:], o) {
					toks = append(toks, tok{"op", o, i})
					i += len(o)
					matched = true
					break
				}
			}
			if !matched {
				toks = append(toks, tok{"op", string(c), i})
				i++
			}
		}
	}
	toks = append(toks, tok{"eof", "", len(src)})
	return toks, nil
}

func isHex(c byte) bool {
	return c >= '0' && c <= '9' || c >= 'a' && c <= 'f' || c >= 'A' && c <= 'F'
}
func isIdStart(c byte) bool {
	return c == '_' || c >= 'a' && c <= 'z' || c >= 'A' && c <= 'Z'
}

type parser struct {
	toks []tok
	p    int
	src  string
}

func (p *parser) peek() tok { return p.toks[p.p] }
func (p *parser) next() tok  { t := p.toks[p.p]; p.p++; return t }
func (p *parser) isOp(s string) bool {
	t := p.peek()
	return t.kind == "op" && t.text == s
}
func (p *parser) isId(s string) bool {
	t := p.peek()
	return t.kind == "id" && t.text == s
}
func (p *parser) expectOp(s string) {
	t := p.next()
	if t.kind != "op" || t.text != s {
		panic(fmt.Sprintf("expected %q at %d in %q, got %q", s, t.pos, p.src, t.text))
	}
}

func ParseExpr(src string) (e *Expr, err error) {
	defer func() {
		if r := recover(); r != nil {
			err = fmt.Errorf("%v", r)
		}
	}()
	toks, err := lex(src)
	if err != nil {
		return nil, err
	}
	p := &parser{toks: toks, src: src}
	e = p.expr()
	if p.peek().kind != "eof" {
		panic(fmt.Sprintf("trailing input at %d in %q", p.peek().pos, src))
	}
	e.Src = src
	return e, nil
}

func (p *parser) expr() *Expr {
	if p.isId("forall") || p.isId("exists") {
		op := p.next().text
		var vs []Binder
		for {
			n := p.next()
			if n.kind != "id" {
				panic("binder name expected in " + p.src)
			}
			t := p.typ()
			vs = append(vs, Binder{n.text, t})
			if p.isOp(",") {
				p.next()
				continue
			}
			break
		}
		p.expectOp("::")
		body := p.expr()
		return &Expr{Op: op, Vars: vs, Args: []*Expr{body}}
	}
	return p.impl()
}

func (p *parser) typ() *TypeX {
	if p.isOp("[") {
		p.next()
		if p.isOp("]") {
			p.next()
			return &TypeX{Kind: "slice", Elem: p.typ()}
		}
		n := p.next()
		var l int64
		fmt.Sscan(n.text, &l)
		p.expectOp("]")
		return &TypeX{Kind: "array", Len: l, Elem: p.typ()}
	}
	if p.isOp("*") {
		p.next()
		return &TypeX{Kind: "ptr", Elem: p.typ()}
	}
	n := p.next()
	if n.kind != "id" {
		panic("type expected in " + p.src)
	}
	if n.text == "map" {
		p.expectOp("[")
		k := p.typ()
		p.expectOp("]")
		return &TypeX{Kind: "map", Key: k, Elem: p.typ()}
	}
	name := n.text
	if p.isOp(".") {
		p.next()
		name += "." + p.next().text
	}
	return &TypeX{Kind: "name", Name: name}
}

func (p *parser) impl() *Expr {
	l := p.iff()
	if p.isOp("==>") {
		p.next()
		var r *Expr
		if p.isId("forall") || p.isId("exists") {
			r = p.expr()
		} else {
			r = p.impl()
		}
		return &Expr{Op: "bin", Val: "==>", Args: []*Expr{l, r}}
	}
	return l
}

func (p *parser) iff() *Expr {
	l := p.or()
	for p.isOp("<==>") {
		p.next()
		r := p.or()
		l = &Expr{Op: "bin", Val: "<==>", Args: []*Expr{l, r}}
	}
	return l
}

func (p *parser) or() *Expr {
	l := p.and()
	for p.isOp("||") {
		p.next()
		r := p.and()
		l = &Expr{Op: "bin", Val: "||", Args: []*Expr{l, r}}
	}
	return l
}

func (p *parser) and() *Expr {
	l := p.cmp()
	for p.isOp("&&") {
		p.next()
		r := p.cmp()
		l = &Expr{Op: "bin", Val: "&&", Args: []*Expr{l, r}}
	}
	return l
}

func (p *parser) cmp() *Expr {
	l := p.add()
	for {
		t := p.peek()
		if t.kind == "op" && (t.text == "==" || t.text == "!=" || t.text == "<" || t.text == "<=" || t.text == ">" || t.text == ">=") {
			p.next()
			r := p.add()
			l = &Expr{Op: "bin", Val: t.text, Args: []*Expr{l, r}}
			continue
		}
		return l
	}
}

func (p *parser) add() *Expr {
	l := p.mul()
	for {
		t := p.peek()
		if t.kind == "op" && (t.text == "+" || t.text == "-" || t.text == "|" || t.text == "^") {
			p.next()
			r := p.mul()
			l = &Expr{Op: "bin", Val: t.text, Args: []*Expr{l, r}}
			continue
		}
		return l
	}
}

func (p *parser) mul() *Expr {
	l := p.unary()
	for {
		t := p.peek()
		if t.kind == "op" && (t.text == "*" || t.text == "/" || t.text == "%" || t.text == "<<" || t.text == ">>" || t.text == "&" || t.text == "&^") {
			p.next()
			r := p.unary()
			l = &Expr{Op: "bin", Val: t.text, Args: []*Expr{l, r}}
			continue
		}
		return l
	}
}

func (p *parser) unary() *Expr {
	t := p.peek()
	if t.kind == "op" && (t.text == "!" || t.text == "-" || t.text == "^" || t.text == "*") {
		p.next()
		return &Expr{Op: "un", Val: t.text, Args: []*Expr{p.unary()}}
	}
	return p.postfix()
}

func (p *parser) postfix() *Expr {
	e := p.primary()
	for {
		switch {
		case p.isOp("."):
			p.next()
			n := p.next()
			if n.kind != "id" {
				panic("field name expected in " + p.src)
			}
			e = &Expr{Op: "sel", Val: n.text, Args: []*Expr{e}}
		case p.isOp("["):
			p.next()
			var lo, hi *Expr
			if !p.isOp(":") {
				lo = p.expr()
			}
			if p.isOp(":") {
				p.next()
				if !p.isOp("]") {
					hi = p.expr()
				}
				p.expectOp("]")
				e = &Expr{Op: "slice", Args: []*Expr{e, lo, hi}}
			} else {
				p.expectOp("]")
				e = &Expr{Op: "idx", Args: []*Expr{e, lo}}
			}
		case p.isOp("("):
			p.next()
			args := []*Expr{e}
			for !p.isOp(")") {
				args = append(args, p.expr())
				if p.isOp(",") {
					p.next()
				}
			}
			p.expectOp(")")
			e = &Expr{Op: "call", Args: args}
		default:
			return e
		}
	}
}

func (p *parser) primary() *Expr {
	t := p.next()
	switch t.kind {
	case "int":
		return &Expr{Op: "lit", Val: t.text}
	case "str":
		return &Expr{Op: "strlit", Val: t.text}
	case "id":
		if t.text == "smt" {
			sortS := "Bool"
			if p.isOp("[") {
				p.next()
				// sort text up to ]
				var sb []string
				for !p.isOp("]") {
					sb = append(sb, p.next().text)
				}
				p.next()
				sortS = strings.Join(sb, " ")
			}
			s := p.next()
			if s.kind != "str" {
				panic("smt escape needs a string in " + p.src)
			}
			return &Expr{Op: "smt", Val: s.text, Sort: sortS}
		}
		return &Expr{Op: "id", Val: t.text}
	case "op":
		if t.text == "(" {
			e := p.expr()
			p.expectOp(")")
			return e
		}
		if t.text == "[" && p.isOp("]") {
			// a slice TYPE used as an argument of typetag(...) / unbox(x, ...): []byte, []interface{}, []pkg.T
			p.next()
			ty := "[]"
			for p.isOp("[") || p.isOp("*") {
				o := p.next()
				ty += o.text
				if o.text == "[" {
					p.expectOp("]")
					ty += "]"
				}
			}
			id := p.next()
			if id.kind != "id" {
				panic(fmt.Sprintf("type name expected after [] at %d in %q", id.pos, p.src))
			}
			ty += id.text
			for p.isOp(".") {
				p.next()
				ty += "." + p.next().text
			}
			if id.text == "interface" && p.isOp("{") {
				p.next()
				p.expectOp("}")
				ty += "{}"
			}
			return &Expr{Op: "id", Val: ty}
		}
	}
	panic(fmt.Sprintf("unexpected %q at %d in %q", t.text, t.pos, p.src))
}
