// Anchor "mapupdate <var>#k": the k-th (source order) assignment m[key] = value to the map held in
// the source variable <var>. In clauses at that anchor, callee_key / callee_value (or key / value
// when not shadowed) are the stored key and value; the clause is evaluated BEFORE the update.
package main

import (
	"fmt"
	"go/types"
	"sort"
	"strings"

	"golang.org/x/tools/go/ssa"
)

func (g *Gen) mapUpdateAnchor(x *ssa.MapUpdate) {
	fr := g.fr
	if fr.c == nil || fr.inl || len(fr.c.Asserts)+len(fr.c.GhostAts) == 0 {
		return
	}
	mt, ok := x.Map.Type().Underlying().(*types.Map)
	if !ok {
		return
	}
	name := ""
	for n := range fr.named {
		if fr.lookupNamed(n) == x.Map {
			if name == "" || n < name {
				name = n
			}
		}
	}
	env := &TEnv{g: g, vars: map[string]tvT{
		"key":   {t: g.term(x.Key), gt: mt.Key()},
		"value": {t: g.term(x.Value), gt: mt.Elem()},
	}}
	// "mapupdate #k": the k-th map assignment of the function in source order, whatever map it writes
	// (for maps that have no name of their own, e.g. the inner map in counts[a][b] += 1)
	{
		var all []*ssa.MapUpdate
		for _, b := range fr.fn.Blocks {
			for _, in := range b.Instrs {
				if mu, ok := in.(*ssa.MapUpdate); ok {
					all = append(all, mu)
				}
			}
		}
		sort.SliceStable(all, func(i, j int) bool { return all[i].Pos() < all[j].Pos() })
		for i, s := range all {
			if s == x {
				g.atAnchor(fmt.Sprintf("mapupdate #%d", i+1), env)
			}
		}
	}
	if name == "" {
		return
	}
	var sites []*ssa.MapUpdate
	for _, b := range fr.fn.Blocks {
		for _, in := range b.Instrs {
			if mu, ok := in.(*ssa.MapUpdate); ok && mu.Map == x.Map {
				sites = append(sites, mu)
			}
		}
	}
	sort.SliceStable(sites, func(i, j int) bool { return sites[i].Pos() < sites[j].Pos() })
	k := 0
	for i, s := range sites {
		if s == x {
			k = i + 1
		}
	}
	anchor := fmt.Sprintf("mapupdate %s#%d", name, k)
	// a contract that constrains the writes to this map must constrain all of them: an update site
	// without an assert (e.g. one added later) is reported, not skipped
	speaks, covered := false, false
	for _, a := range fr.c.Asserts {
		if strings.HasPrefix(a.Anchor, "mapupdate "+name+"#") {
			speaks = true
			if a.Anchor == anchor {
				covered = true
			}
		}
	}
	if speaks && !covered {
		g.ob("assert", "uncovered-"+sanitize(anchor), "false", anchor+": the contract constrains writes to map "+name+" but has no assert for this write")
	}
	g.atAnchor(anchor, env)
}
