// Call-privacy of heap-modelled local objects.
package main

import (
	"go/token"
	"go/types"

	"golang.org/x/tools/go/ssa"
)

// callPrivate: the address of the allocation (or of parts of it, or slices of it) is only
//   - loaded from / stored to,
//   - passed as an argument to callees that have a contract with an explicit frame (no `assigns *`),
//   - used by len/cap/copy/append-as-source.
// Such an object cannot be written by a call whose effect is "everything reachable": neither an
// uncontracted callee nor an `assigns *` callee ever receives a path to it.
func (g *Gen) callPrivate(a *ssa.Alloc) bool {
	seen := map[ssa.Value]bool{}
	var ok func(v ssa.Value) bool
	ok = func(v ssa.Value) bool {
		if seen[v] {
			return true
		}
		seen[v] = true
		refs := v.Referrers()
		if refs == nil {
			return false
		}
		for _, r := range *refs {
			switch u := r.(type) {
			case *ssa.UnOp:
				if u.Op != token.MUL {
					return false
				}
			case *ssa.Store:
				if u.Val == v {
					return false // the pointer itself is stored somewhere
				}
			case *ssa.FieldAddr:
				if !ok(u) {
					return false
				}
			case *ssa.IndexAddr:
				if !ok(u) {
					return false
				}
			case *ssa.Slice:
				if !ok(u) {
					return false
				}
			case *ssa.DebugRef:
			case *ssa.Call:
				cc := u.Common()
				if b, isB := cc.Value.(*ssa.Builtin); isB {
					switch b.Name() {
					case "len", "cap", "copy":
						continue
					}
					return false
				}
				callee := cc.StaticCallee()
				ct := g.contractFor(callee, cc)
				if ct == nil || ct.AssignsAll || ct.Inline {
					return false
				}
			default:
				return false
			}
		}
		return true
	}
	return ok(a)
}

// invariantStoreTarget: the store writes an element of a slice / a scalar field of an object whose
// reference is an SSA value defined OUTSIDE the loop body (so it is the same object in every iteration).
func (g *Gen) invariantStoreTarget(addr ssa.Value, body map[*ssa.BasicBlock]bool) (comp, ref string, ok bool) {
	outside := func(v ssa.Value) bool {
		switch x := v.(type) {
		case *ssa.Parameter, *ssa.Const, *ssa.Global, *ssa.FreeVar:
			return true
		case ssa.Instruction:
			return !body[x.Block()]
		}
		return false
	}
	if _, tracked := g.fr.lv[addr]; tracked {
		if l := g.fr.lv[addr]; l.kind == "local" {
			return "", "", false
		}
	}
	switch x := addr.(type) {
	case *ssa.IndexAddr:
		if st, isSlice := x.X.Type().Underlying().(*types.Slice); isSlice && outside(x.X) {
			if _, have := g.fr.val[x.X]; have || isParam(x.X) {
				c, _ := g.memComp(st.Elem())
				return c, "(base " + g.term(x.X) + ")", true
			}
		}
	case *ssa.FieldAddr:
		pt, isPtr := x.X.Type().Underlying().(*types.Pointer)
		if !isPtr || !outside(x.X) {
			return "", "", false
		}
		if _, isLv := g.fr.lv[x.X]; isLv {
			return "", "", false
		}
		stt, isStruct := pt.Elem().Underlying().(*types.Struct)
		if !isStruct || isAggregate(stt.Field(x.Field).Type()) {
			return "", "", false
		}
		if _, have := g.fr.val[x.X]; have || isParam(x.X) {
			c, _ := g.fieldComp(pt.Elem(), x.Field)
			return c, g.term(x.X), true
		}
	}
	return "", "", false
}

func isParam(v ssa.Value) bool {
	_, ok := v.(*ssa.Parameter)
	return ok
}
