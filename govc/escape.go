// Call-privacy of heap-modelled local objects.
package main

import (
	"go/token"

	"golang.org/x/tools/go/ssa"
)

// callPrivate: the address of the allocation (or of parts of it, or slices of it) is only
//   - loaded from / stored to,
//   - passed as an argument to callees that have a contract with an explicit frame (no `assigns *`),
//   - used by len/cap/copy/append-as-source.
// Such an object cannot be written by a call whose effect is "everything reachable": neither an
// uncontracted callee nor an `assigns *` callee ever receives a path to it.
func (g *Gen) callPrivate(a *ssa.Alloc) bool {
	seen := map[ssa.Value]bool{}
	var ok func(v ssa.Value) bool
	ok = func(v ssa.Value) bool {
		if seen[v] {
			return true
		}
		seen[v] = true
		refs := v.Referrers()
		if refs == nil {
			return false
		}
		for _, r := range *refs {
			switch u := r.(type) {
			case *ssa.UnOp:
				if u.Op != token.MUL {
					return false
				}
			case *ssa.Store:
				if u.Val == v {
					return false // the pointer itself is stored somewhere
				}
			case *ssa.FieldAddr:
				if !ok(u) {
					return false
				}
			case *ssa.IndexAddr:
				if !ok(u) {
					return false
				}
			case *ssa.Slice:
				if !ok(u) {
					return false
				}
			case *ssa.DebugRef:
			case *ssa.Call:
				cc := u.Common()
				if b, isB := cc.Value.(*ssa.Builtin); isB {
					switch b.Name() {
					case "len", "cap", "copy":
						continue
					}
					return false
				}
				callee := cc.StaticCallee()
				ct := g.contractFor(callee, cc)
				if ct == nil || ct.AssignsAll || ct.Inline {
					return false
				}
			default:
				return false
			}
		}
		return true
	}
	return ok(a)
}
