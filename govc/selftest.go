// Must-fail self-test corpus: /verif/selftest/<id>/<name>.patch with /verif/selftest/<id>/<name>.json
// {"expect": "fail" | "pass", "note": "..."}; patches are applied IN MEMORY (packages overlay).
package main

import (
	"encoding/json"
	"fmt"
	"os"
	"os/exec"
	"path/filepath"
	"regexp"
	"sort"
	"strings"
)

var plusRe = regexp.MustCompile(`(?m)^\+\+\+ b/(\S+)`)

// apply a unified diff to copies of the touched files; returns overlay (absolute repo path -> content)
func patchOverlay(patchFile string) (map[string][]byte, error) {
	pb, err := os.ReadFile(patchFile)
	if err != nil {
		return nil, err
	}
	tmp, err := os.MkdirTemp("", "govc-patch")
	if err != nil {
		return nil, err
	}
	defer os.RemoveAll(tmp)
	var files []string
	for _, m := range plusRe.FindAllStringSubmatch(string(pb), -1) {
		files = append(files, m[1])
	}
	for _, f := range files {
		src := filepath.Join(repoDir(), f)
		dst := filepath.Join(tmp, f)
		os.MkdirAll(filepath.Dir(dst), 0755)
		if b, err := os.ReadFile(src); err == nil {
			os.WriteFile(dst, b, 0644)
		}
	}
	cmd := exec.Command("patch", "-p1", "-s", "-i", patchFile)
	cmd.Dir = tmp
	if out, err := cmd.CombinedOutput(); err != nil {
		return nil, fmt.Errorf("patch failed: %v: %s", err, out)
	}
	ov := map[string][]byte{}
	for _, f := range files {
		b, err := os.ReadFile(filepath.Join(tmp, f))
		if err != nil {
			return nil, err
		}
		ov[filepath.Join(repoDir(), f)] = b
	}
	return ov, nil
}

type selftestMeta struct {
	Expect string `json:"expect"`
	Note   string `json:"note"`
}

func runSelftestFor(id string) map[string]interface{} {
	dir := filepath.Join(verifRoot(), "selftest", id)
	patches, _ := filepath.Glob(filepath.Join(dir, "*.patch"))
	sort.Strings(patches)
	// sub-agent seeded changes for this property double as must-fail mutants
	seeded, _ := filepath.Glob(filepath.Join(verifRoot(), "seeded", id+"-*", "patch.diff"))
	sort.Strings(seeded)
	patches = append(patches, seeded...)
	total, caught, ctlTotal, ctlOK := 0, 0, 0, 0
	var details []map[string]interface{}
	for _, p := range patches {
		name := strings.TrimSuffix(filepath.Base(p), ".patch")
		if filepath.Base(p) == "patch.diff" {
			name = "seeded-" + filepath.Base(filepath.Dir(p))
		}
		meta := selftestMeta{Expect: "fail"}
		if b, err := os.ReadFile(filepath.Join(dir, name+".json")); err == nil {
			json.Unmarshal(b, &meta)
		}
		ov, err := patchOverlay(p)
		d := map[string]interface{}{"mutant": name, "expect": meta.Expect, "note": meta.Note}
		if err != nil {
			d["error"] = err.Error()
			details = append(details, d)
			if meta.Expect == "fail" {
				total++
			} else {
				ctlTotal++
			}
			continue
		}
		res := &checkResult{}
		// silence stdout of the inner run
		old := os.Stdout
		devnull, _ := os.Open(os.DevNull)
		os.Stdout = devnull
		rc := runCheck([]string{id, "--tier", "quick"}, &checkOpts{overlay: ov, selftest: name, result: res})
		os.Stdout = old
		devnull.Close()
		d["violations"] = len(res.violations)
		d["failed_obligations"] = res.failed
		if meta.Expect == "fail" {
			total++
			if rc != 0 {
				caught++
				d["caught"] = true
			} else {
				d["caught"] = false
			}
		} else {
			ctlTotal++
			if rc == 0 {
				ctlOK++
				d["quiet"] = true
			} else {
				d["quiet"] = false
			}
		}
		details = append(details, d)
	}
	return map[string]interface{}{"mutants": total, "caught": caught, "negative_controls": ctlTotal, "negative_controls_quiet": ctlOK, "details": details}
}

func cmdSelftest(args []string) int {
	var ids []string
	if len(args) > 0 {
		ids = args
	} else {
		ds, _ := filepath.Glob(filepath.Join(verifRoot(), "selftest", "*"))
		for _, d := range ds {
			ids = append(ids, filepath.Base(d))
		}
	}
	rc := 0
	for _, id := range ids {
		r := runSelftestFor(id)
		fmt.Printf("selftest %s: %v/%v mutants caught, %v/%v negative controls quiet\n", id, r["caught"], r["mutants"], r["negative_controls_quiet"], r["negative_controls"])
		for _, d := range r["details"].([]map[string]interface{}) {
			fmt.Printf("   %-40s expect=%-5v violations=%v caught=%v quiet=%v %v\n", d["mutant"], d["expect"], d["violations"], d["caught"], d["quiet"], d["error"])
			if fo, ok := d["failed_obligations"].([]string); ok {
				for i, f := range fo {
					if i < 4 {
						fmt.Printf("        %s\n", f)
					}
				}
			}
		}
		if r["caught"] != r["mutants"] || r["negative_controls_quiet"] != r["negative_controls"] {
			rc = 1
		}
	}
	return rc
}
