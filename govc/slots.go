// Machine-wide bound on concurrently running solver processes.
//
// Solver time limits are wall-clock. When several checks run at the same time (or the machine is busy)
// an unbounded number of solver processes makes every one of them slow and a goal that needs 3 s hits
// its 20 s limit: a false alarm caused by load. Every solver process therefore first takes one of N
// slot files under <verif>/out/slots with flock(2); its time limit counts from that moment. The slots
// are shared by all govc processes on the machine, cost nothing when idle, and are released by the
// kernel if a process dies.
package main

import (
	"context"
	"fmt"
	"os"
	"path/filepath"
	"runtime"
	"syscall"
	"time"
)

func slotCount() int {
	n := runtime.NumCPU() + runtime.NumCPU()/4
	if n < 4 {
		n = 4
	}
	return n
}

func acquireSlot(ctx context.Context) (release func(), ok bool) {
	dir := filepath.Join(verifRoot(), "out", "slots")
	if err := os.MkdirAll(dir, 0755); err != nil {
		return func() {}, true // no slot directory: run unbounded rather than not at all
	}
	n := slotCount()
	start := int(time.Now().UnixNano() % int64(n))
	for {
		for k := 0; k < n; k++ {
			i := (start + k) % n
			f, err := os.OpenFile(filepath.Join(dir, fmt.Sprintf("slot-%02d", i)), os.O_CREATE|os.O_RDWR, 0644)
			if err != nil {
				return func() {}, true
			}
			if syscall.Flock(int(f.Fd()), syscall.LOCK_EX|syscall.LOCK_NB) == nil {
				return func() {
					syscall.Flock(int(f.Fd()), syscall.LOCK_UN)
					f.Close()
				}, true
			}
			f.Close()
		}
		select {
		case <-ctx.Done():
			return nil, false
		case <-time.After(25 * time.Millisecond):
		}
	}
}
