// govc: contract-based deductive verification of Go functions in /repo (go/ssa -> SMT).
package main

import (
	"encoding/json"
	"fmt"
	"os"
	"path/filepath"
	"sort"
	"strings"
	"time"
)

type BoundedRun struct {
	Name     string `json:"name"`     // obligation name
	Function string `json:"function"` // the function it stands in for
	Dir      string `json:"dir"`      // package directory under /repo
	File     string `json:"file"`     // test source under /verif
	Test     string `json:"test"`     // test function
	Bound    string `json:"bound"`    // the stated bound
}

type Prop struct {
	ID          string   `json:"id"`
	Packages    []string `json:"packages"`
	Functions   []string `json:"functions"`   // keys relative to github.com/ontio/ontology/
	Lemmas      []string `json:"lemmas"`
	Level       string   `json:"level"`       // proof | other
	Explanation string   `json:"explanation"` // for level other
	TrustedBase []string `json:"trusted_base"`
	Assumptions []string `json:"assumptions"`
	MinObligations int   `json:"min_obligations"`
	TimeoutQuick   int    `json:"timeout_quick"`   // per-obligation solver timeout in seconds for the quick tier (default 20)
	Profile        string `json:"profile"` // contracts declared `func F @profile` replace the default contract of F

	Bounded     []string `json:"bounded"` // function keys whose obligations are bounded (never counted as proved)
	// executable bounded stand-ins for functions outside the verifier's reach: an in-package test (source kept
	// under /verif/bounded) injected by overlay and run against the real code; labelled bounded, never counted as proved
	BoundedRuns []BoundedRun `json:"bounded_runs"`
	Sweep       []string `json:"sweep"`   // functions verified for safety only without a written contract (zero-annotation sweep)
	// obligations (substring of the obligation name) that belong to ANOTHER property although they are
	// generated from a function this property also depends on; they are decided under that property
	OutOfScope []string `json:"out_of_scope"`
}

const ontoPrefix = "github.com/ontio/ontology/"

func fullKey(k string) string {
	if strings.HasPrefix(k, "(*") {
		return "(*" + ontoPrefix + k[2:]
	}
	if strings.HasPrefix(k, "(") {
		return "(" + ontoPrefix + k[1:]
	}
	return ontoPrefix + k
}

func main() {
	if len(os.Args) < 2 {
		fmt.Println("usage: govc check <id> [--tier quick|thorough] | func <pkgs...> -- <funcs...> | replay <file> | selftest [id]")
		os.Exit(2)
	}
	switch os.Args[1] {
	case "check":
		os.Exit(cmdCheck(os.Args[2:]))
	case "func":
		os.Exit(cmdFunc(os.Args[2:]))
	case "replay":
		os.Exit(cmdReplay(os.Args[2:]))
	case "selftest":
		os.Exit(cmdSelftest(os.Args[2:]))
	case "list":
		os.Exit(cmdList(os.Args[2:]))
	}
	fmt.Println("unknown command", os.Args[1])
	os.Exit(2)
}

func loadProp(id string) (*Prop, error) {
	b, err := os.ReadFile(filepath.Join(verifRoot(), "props", id+".json"))
	if err != nil {
		return nil, err
	}
	p := &Prop{}
	if err := json.Unmarshal(b, p); err != nil {
		return nil, err
	}
	return p, nil
}

// debug: verify named functions and print every obligation
func cmdFunc(args []string) int {
	var pats, fns []string
	seenSep := false
	for _, a := range args {
		if a == "--" {
			seenSep = true
			continue
		}
		if seenSep {
			fns = append(fns, a)
		} else {
			pats = append(pats, a)
		}
	}
	activeProfile = os.Getenv("GOVC_PROFILE")
	w, err := loadWorld(pats, nil)
	if err != nil {
		fmt.Println("load error:", err)
		return 2
	}
	fmt.Printf("loaded in %v; %d contracts, %d specs, %d lemmas\n", w.LoadDur, len(w.DB.Funcs), len(w.DB.Specs), len(w.DB.Lemmas))
	for _, e := range w.DB.Errors {
		fmt.Println("CONTRACT ERROR:", e)
	}
	if err := w.evalGlobals(); err != nil {
		fmt.Println("eval error:", err)
		return 2
	}
	timeout := 10
	if s := os.Getenv("GOVC_TIMEOUT"); s != "" {
		fmt.Sscanf(s, "%d", &timeout)
	}
	rc := 0
	for _, k := range fns {
		var obs []*Oblig
		var g *Gen
		if strings.HasPrefix(k, "lemma:") {
			lm := w.DB.Lemmas[strings.TrimPrefix(k, "lemma:")]
			if lm == nil {
				fmt.Println("no lemma", k)
				continue
			}
			var err error
			g, obs, err = w.genLemma(lm)
			if err != nil {
				fmt.Println("lemma error:", err)
				rc = 1
				continue
			}
		} else {
			key := fullKey(k)
			fn := w.Funcs[key]
			if fn == nil {
				fn = w.Funcs[k]
				key = k
			}
			if fn == nil {
				fmt.Println("no function", k)
				rc = 1
				continue
			}
			c := w.DB.Funcs[key]
			if c == nil {
				fmt.Println("  (no contract: safety sweep, bv mode)")
				c = &Contract{Key: key, Loops: map[int]*LoopC{}, Pkg: w.ByPath[fn.Pkg.Pkg.Path()]}
			}
			res := w.genFunction(fn, c)
			if res.Err != "" {
				fmt.Println("ERROR:", res.Err)
				rc = 1
				continue
			}
			g = res.Gen
			obs = g.obs
			obs = append(obs, g.vacuityObs()...)
		}
		t0 := time.Now()
		solveAll(obs, filepath.Join(verifRoot(), "out", "func"), timeout, 8)
		fmt.Printf("== %s (%s): %d obligations, %d defs, solved in %v\n", k, map[bool]string{true: "bv", false: "int"}[g.bv], len(obs), len(g.defs), time.Since(t0).Round(time.Millisecond))
		for _, n := range uniq(g.notes) {
			fmt.Println("   note:", n)
		}
		for _, o := range obs {
			ok := o.Status == "unsat"
			if o.Kind == "vacuity" {
				ok = o.Status == "sat"
			}
			mark := "  "
			if !ok {
				mark = "!!"
				rc = 1
			}
			fmt.Printf(" %s %-60s %-8s %-7s %6dms  %s\n", mark, o.Name, o.Status, o.Solver, o.Ms, trunc(o.Desc, 90))
			if !ok {
				fmt.Printf("      file: %s\n", o.File)
				if o.Status == "sat" && o.Kind != "vacuity" {
					mv := modelValues(o, o.Solver, g.inputTerms(), timeout)
					for _, t := range g.inputTerms() {
						if v, ok := mv[t]; ok {
							fmt.Printf("      %s = %s\n", t, v)
						}
					}
				} else if o.Status != "sat" {
					fmt.Printf("      out: %s\n", trunc(strings.ReplaceAll(o.Output, "\n", " | "), 300))
				}
			}
		}
	}
	return rc
}

func trunc(s string, n int) string {
	if len(s) > n {
		return s[:n] + "..."
	}
	return s
}

func uniq(a []string) []string {
	m := map[string]bool{}
	var r []string
	for _, s := range a {
		if !m[s] {
			m[s] = true
			r = append(r, s)
		}
	}
	return r
}

// terms describing the inputs of the top function (for models)
func (g *Gen) inputTerms() []string {
	var out []string
	if g.top == nil || g.fr == nil {
		return nil
	}
	var names []string
	for n := range g.inputs {
		names = append(names, n)
	}
	sort.Strings(names)
	for _, n := range names {
		out = append(out, g.inputs[n])
	}
	return out
}

func cmdList(args []string) int {
	files, _ := filepath.Glob(filepath.Join(verifRoot(), "props", "*.json"))
	for _, f := range files {
		fmt.Println(strings.TrimSuffix(filepath.Base(f), ".json"))
	}
	return 0
}
