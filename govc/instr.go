// Instruction encoding and calls.
package main

import (
	"sort"
	"fmt"
	"go/ast"
	"go/token"
	"go/types"
	"strings"

	"golang.org/x/tools/go/ssa"
)

func (g *Gen) instr(in ssa.Instruction, li *loopInfo) {
	fr := g.fr
	b := in.Block()
	switch x := in.(type) {
	case *ssa.Phi:
	case *ssa.DebugRef:
		if id, ok := x.Expr.(*ast.Ident); ok && x.IsAddr && id.Name != "_" {
			fr.setNamedAddr(id.Name, x.X, x.Block())
		}
		if id, ok := x.Expr.(*ast.Ident); ok && !x.IsAddr && id.Name != "_" {
			if _, isFn := x.X.(*ssa.Function); !isFn {
				fr.setNamed(id.Name, x.X, x.Block())
				if fr.c != nil && len(fr.c.Asserts)+len(fr.c.GhostAts) > 0 && !fr.inl {
					// anchor "def <var>#k": after the k-th (source order) definition/assignment of variable <var>
					if k := g.defOrdinal(fr, id); k > 0 {
						g.atAnchor(fmt.Sprintf("def %s#%d", id.Name, k), &TEnv{g: g, vars: map[string]tvT{}})
					}
				}
			}
		}
	case *ssa.BinOp:
		fr.val[x] = g.define(x.Name(), g.sortOf(x.Type()), g.binop(x))
	case *ssa.UnOp:
		g.unop(x)
	case *ssa.Field:
		fr.val[x] = g.fieldSel(x.X.Type(), x.Field, g.term(x.X))
	case *ssa.Index:
		// array value or string indexing
		a := g.term(x.X)
		i := g.toIdx(x.Index)
		switch u := x.X.Type().Underlying().(type) {
		case *types.Array:
			g.safety("index", fmt.Sprintf("(and %s %s)", g.le(g.idx(0), i, true), g.lt(i, g.idx(u.Len()), true)), "array index in range")
			fr.val[x] = fmt.Sprintf("(select %s %s)", a, i)
		default: // string
			g.safety("index", fmt.Sprintf("(and %s %s)", g.le(g.idx(0), i, true), g.lt(i, "(len "+a+")", true)), "string index in range")
			c, _ := g.memComp(types.Typ[types.Uint8])
			fr.val[x] = g.define(x.Name(), g.sortOf(x.Type()), fmt.Sprintf("(select (select %s (base %s)) %s)", g.heapGet(c), a, g.elemIdx("(off "+a+")", i)))
		}
	case *ssa.Convert:
		fr.val[x] = g.convert(x)
	case *ssa.ChangeType:
		fr.val[x] = g.term(x.X)
		if c, ok := fr.clo[x.X]; ok {
			fr.clo[x] = c
		} else if f, ok := x.X.(*ssa.Function); ok {
			fr.clo[x] = &closure{fn: f}
		}
		if l, ok := fr.lv[x.X]; ok {
			fr.lv[x] = l
		}
	case *ssa.ChangeInterface:
		fr.val[x] = g.term(x.X)
	case *ssa.MakeInterface:
		g.makeInterface(x)
	case *ssa.TypeAssert:
		g.typeAssert(x)
	case *ssa.FieldAddr:
		g.fieldAddr(x)
	case *ssa.IndexAddr:
		g.indexAddr(x)
	case *ssa.Alloc:
		g.alloc(x)
	case *ssa.Store:
		// anchor `store <Field>#k`: the k-th assignment (in source order) to a struct field of that name
		if fa, ok := x.Addr.(*ssa.FieldAddr); ok && fr.c != nil && !fr.inl && len(fr.c.Asserts)+len(fr.c.GhostAts) > 0 {
			if pt, ok := fa.X.Type().Underlying().(*types.Pointer); ok {
				if st, ok := pt.Elem().Underlying().(*types.Struct); ok {
					fname := st.Field(fa.Field).Name()
					type posStore struct {
						pos token.Pos
						in  *ssa.Store
					}
					var all []posStore
					for _, b := range fr.fn.Blocks {
						for _, in := range b.Instrs {
							if s2, ok := in.(*ssa.Store); ok {
								if fa2, ok := s2.Addr.(*ssa.FieldAddr); ok {
									if pt2, ok := fa2.X.Type().Underlying().(*types.Pointer); ok {
										if st2, ok := pt2.Elem().Underlying().(*types.Struct); ok && st2.Field(fa2.Field).Name() == fname {
											all = append(all, posStore{s2.Pos(), s2})
										}
									}
								}
							}
						}
					}
					sort.SliceStable(all, func(i, j int) bool { return all[i].pos < all[j].pos })
					for k, ps := range all {
						if ps.in == x {
							env := &TEnv{g: g, vars: map[string]tvT{"value": {t: g.term(x.Val), gt: x.Val.Type()}}}
							g.atAnchor(fmt.Sprintf("store %s#%d", fname, k+1), env)
						}
					}
				}
			}
		}
		l := g.lvalOf(x.Addr)
		if l == nil {
			g.note("store through unknown pointer: %s", x)
			return
		}
		g.nilCheck(l, "store")
		g.store(l, g.term(x.Val))
	case *ssa.Slice:
		g.slice(x)
	case *ssa.MakeSlice:
		g.makeSlice(x)
	case *ssa.MakeMap:
		g.makeMap(x)
	case *ssa.MapUpdate:
		g.mapUpdate(x)
	case *ssa.Lookup:
		g.lookup(x)
	case *ssa.Range:
		g.rangeStart(x)
	case *ssa.Next:
		g.rangeNext(x)
	case *ssa.MakeClosure:
		f := x.Fn.(*ssa.Function)
		cl := &closure{fn: f, bindings: x.Bindings, owner: fr}
		for _, bnd := range x.Bindings {
			cl.bterms = append(cl.bterms, g.term(bnd))
		}
		fr.clo[x] = cl
		fr.val[x] = g.funcRef(f)
	case *ssa.Call:
		g.call(x, x.Common())
	case *ssa.Defer:
		if isIgnoredCall(x.Common().StaticCallee(), x.Common()) {
			return
		}
		fr.defers = append(fr.defers, deferred{guard: g.curR, call: x})
	case *ssa.RunDefers:
		for i := len(fr.defers) - 1; i >= 0; i-- {
			d := fr.defers[i]
			g.callGuarded(d.guard, d.call.Common())
		}
	case *ssa.Go:
		g.note("go statement ignored (concurrency not modelled): %s", x)
	case *ssa.Extract:
		if rs, ok := fr.tuple[x.Tuple]; ok && x.Index < len(rs) {
			fr.val[x] = rs[x.Index]
		} else {
			fr.val[x] = g.fresh("ext", g.sortOf(x.Type()))
			g.note("extract from unknown tuple %s", x.Tuple)
		}
	case *ssa.If:
		c := g.term(x.Cond)
		fr.edge[[2]int{b.Index, b.Succs[0].Index}] = g.define(fmt.Sprintf("e%d_%d", b.Index, b.Succs[0].Index), "Bool", fmt.Sprintf("(and %s %s)", g.curR, c))
		fr.edge[[2]int{b.Index, b.Succs[1].Index}] = g.define(fmt.Sprintf("e%d_%d", b.Index, b.Succs[1].Index), "Bool", fmt.Sprintf("(and %s (not %s))", g.curR, c))
		g.backEdgeObs(b, li)
	case *ssa.Jump:
		fr.edge[[2]int{b.Index, b.Succs[0].Index}] = g.curR
		g.backEdgeObs(b, li)
	case *ssa.Return:
		g.ret(x)
	case *ssa.Panic:
		g.safety("panic-unreachable", "false", "explicit panic is unreachable")
	case *ssa.Send, *ssa.Select:
		g.note("channel operation ignored: %s", in)
		if v, ok := in.(ssa.Value); ok {
			fr.val[v] = g.fresh("chan", g.sortOf(v.Type()))
		}
	default:
		if v, ok := in.(ssa.Value); ok {
			g.note("havoc instr %T %s", in, in)
			fr.val[v] = g.fresh("hv", g.sortOf(v.Type()))
		} else {
			g.note("ignored instr %T %s", in, in)
		}
	}
}

func (g *Gen) nilCheck(l *lval, what string) {
	if l.kind == "local" {
		return
	}
	g.safety("nil", fmt.Sprintf("(not (= %s 0))", l.ref), "nil dereference ("+what+")")
}

func (g *Gen) unop(x *ssa.UnOp) {
	fr := g.fr
	switch x.Op {
	case token.MUL:
		l := g.lvalOf(x.X)
		if l == nil {
			g.note("load through unknown pointer: %s", x)
			fr.val[x] = g.fresh("ld", g.sortOf(x.Type()))
			return
		}
		g.nilCheck(l, "load")
		v := g.define(x.Name(), g.sortOf(x.Type()), g.load(l))
		fr.val[x] = v
		old := false
		if l.kind == "heap" && !l.obj && g.pristine[g.heapGet(l.comp)] {
			old = true
		}
		if l.kind == "heap" && l.obj {
			// a pointer-like value read from a cell (e.g. a package-level variable) whose component still
			// has a version that predates the function denotes an object that existed at entry
			switch l.typ.Underlying().(type) {
			case *types.Pointer, *types.Map, *types.Interface:
				if c, _ := g.cellComp(l.typ); g.pristine[g.heapGet(c)] {
					old = true
				}
			}
		}
		if c := g.typeInv(v, x.Type(), old); c != "true" {
			g.assumeAlways(c)
		}
		if gl, isGlobal := x.X.(*ssa.Global); isGlobal && g.sortOf(x.Type()) == "Int" {
			// sentinel errors (io.EOF, io.ErrUnexpectedEOF, common.ErrIrregularData, ...): package-level variables of
			// type error named Err* / EOF are initialised with errors.New and never reassigned
			if n, ok := x.Type().(*types.Named); ok && n.Obj().Name() == "error" && n.Obj().Pkg() == nil {
				if strings.HasPrefix(gl.Name(), "Err") || gl.Name() == "EOF" {
					g.assumeAlways(fmt.Sprintf("(not (= %s 0))", v))
					g.assumptions["sentinel error variables (package-level Err* / EOF of type error) hold their initial non-nil value"] = true
				}
			}
		}
		if !old && l.kind == "heap" && !l.obj {
			if cond := g.entryValueCond(g.heapGet(l.comp), l.ref); cond != "" {
				if c := g.typeInv(v, x.Type(), true); c != "true" {
					g.assumeAlways(fmt.Sprintf("(=> %s %s)", cond, c))
				}
			}
		}
	case token.NOT:
		fr.val[x] = fmt.Sprintf("(not %s)", g.term(x.X))
	case token.SUB:
		if !isInteger(x.Type()) {
			fr.val[x] = g.fresh("neg", g.sortOf(x.Type()))
			return
		}
		if g.bv {
			fr.val[x] = fmt.Sprintf("(bvneg %s)", g.term(x.X))
		} else {
			fr.val[x] = g.wrap(fmt.Sprintf("(- %s)", g.term(x.X)), x.Type())
		}
	case token.XOR:
		if g.bv {
			fr.val[x] = fmt.Sprintf("(bvnot %s)", g.term(x.X))
		} else if isSigned(x.Type()) {
			fr.val[x] = fmt.Sprintf("(- (- %s) 1)", g.term(x.X))
		} else {
			fr.val[x] = fmt.Sprintf("(- %s %s)", new0(bitsOf(x.Type())), g.term(x.X))
		}
	case token.ARROW:
		g.note("channel receive havoc")
		fr.val[x] = g.fresh("recv", g.sortOf(x.Type()))
	default:
		fr.val[x] = g.fresh("unop", g.sortOf(x.Type()))
	}
}

func new0(bits int) string { // 2^bits - 1
	return fmt.Sprintf("(- %s 1)", pow2(bits))
}

func (g *Gen) fieldAddr(x *ssa.FieldAddr) {
	fr := g.fr
	st := x.X.Type().Underlying().(*types.Pointer).Elem()
	f := st.Underlying().(*types.Struct).Field(x.Field)
	if bl, ok := fr.lv[x.X]; ok && !bl.obj {
		// pointer into a local / array element: extend path
		nl := *bl
		nl.path = append(append([]pathElem{}, bl.path...), pathElem{field: x.Field, st: st})
		nl.typ = f.Type()
		fr.lv[x] = &nl
		fr.val[x] = "0"
		return
	}
	ref := g.term(x.X)
	g.safety("nil", fmt.Sprintf("(not (= %s 0))", ref), "nil dereference (field address)")
	if isAggregate(f.Type()) {
		sr := g.subRef(st, x.Field, ref)
		fr.val[x] = sr
		// plain object pointer
		return
	}
	c, so := g.fieldComp(st, x.Field)
	fr.lv[x] = &lval{kind: "heap", comp: c, csort: so, ref: ref, typ: f.Type()}
	fr.val[x] = "0"
}

func (g *Gen) indexAddr(x *ssa.IndexAddr) {
	fr := g.fr
	i := g.toIdx(x.Index)
	switch u := x.X.Type().Underlying().(type) {
	case *types.Slice:
		s := g.term(x.X)
		g.safety("index", fmt.Sprintf("(and %s %s)", g.le(g.idx(0), i, true), g.lt(i, fmt.Sprintf("(len %s)", s), true)), "slice index in range")
		c, so := g.memComp(u.Elem())
		fr.lv[x] = &lval{kind: "heap", comp: c, csort: so, ref: fmt.Sprintf("(base %s)", s), path: []pathElem{{isIdx: true, idx: g.elemIdx(fmt.Sprintf("(off %s)", s), i)}}, typ: u.Elem()}
	case *types.Pointer:
		arr := u.Elem().Underlying().(*types.Array)
		g.safety("index", fmt.Sprintf("(and %s %s)", g.le(g.idx(0), i, true), g.lt(i, g.idx(arr.Len()), true)), "array index in range")
		if bl, ok := fr.lv[x.X]; ok && !bl.obj {
			nl := *bl
			nl.path = append(append([]pathElem{}, bl.path...), pathElem{isIdx: true, idx: i})
			nl.typ = arr.Elem()
			fr.lv[x] = &nl
		} else {
			ref := g.term(x.X)
			g.safety("nil", fmt.Sprintf("(not (= %s 0))", ref), "nil dereference (array pointer)")
			c, so := g.memComp(arr.Elem())
			fr.lv[x] = &lval{kind: "heap", comp: c, csort: so, ref: ref, path: []pathElem{{isIdx: true, idx: i}}, typ: arr.Elem()}
		}
	}
	fr.val[x] = "0"
}

func (g *Gen) alloc(x *ssa.Alloc) {
	fr := g.fr
	et := x.Type().(*types.Pointer).Elem()
	if !allocEscapes(x) {
		g.nfresh++
		name := fmt.Sprintf("L_%s_%d_%s", sanitize(x.Comment), g.nfresh, g.w.typeName(et))
		so := g.sortOf(et)
		// locals are per-generation unique; declared lazily (never havoc'd by calls)
		if _, ok := g.comps[name]; !ok {
			g.comps[name] = so
			g.entry[name] = g.zeroValue(et)
		}
		g.cur[name] = g.zeroValue(et)
		fr.lv[x] = &lval{kind: "local", comp: name, csort: so, typ: et}
		fr.val[x] = "0"
		return
	}
	g.nfresh++
	r := g.newRefNumeral()
	fr.val[x] = r
	g.storeObj(r, et, g.zeroValue(et))
	if g.callPrivate(x) {
		// the object's address is only handed to callees whose contracts frame what they write: a
		// call that may write "everything" (uncontracted, assigns *) cannot reach it
		g.privObjs = append(g.privObjs, g.objTargets(r, et))
	}
	for _, oa := range g.w.DB.OnAlloc {
		if types.TypeString(et, nil) == oa.Type {
			if gv, ok := g.w.DB.Ghosts[oa.Ghost]; ok {
				n, _, _ := g.ghostComp(gv)
				v := g.trans(oa.Val, &TEnv{g: g, vars: map[string]tvT{}, pkg: oa.Pkg})
				g.setComp(n, fmt.Sprintf("(store %s %s %s)", g.heapGet(n), r, v.t))
			}
		}
	}
}

func (g *Gen) slice(x *ssa.Slice) {
	fr := g.fr
	switch u := x.X.Type().Underlying().(type) {
	case *types.Slice, *types.Basic:
		s := g.term(x.X)
		lo, hi := g.idx(0), fmt.Sprintf("(len %s)", s)
		if x.Low != nil {
			lo = g.toIdx(x.Low)
		}
		if x.High != nil {
			hi = g.toIdx(x.High)
		}
		limit := fmt.Sprintf("(cap %s)", s)
		_, isStr := u.(*types.Basic)
		if isStr {
			limit = fmt.Sprintf("(len %s)", s)
		}
		mx := limit
		if x.Max != nil {
			mx = g.toIdx(x.Max)
		}
		g.safety("slice", fmt.Sprintf("(and %s %s %s %s)", g.le(g.idx(0), lo, true), g.le(lo, hi, true), g.le(hi, mx, true), g.le(mx, limit, true)), "slice bounds in range")
		fr.val[x] = g.define(x.Name(), "Slice", fmt.Sprintf("(mk-slice (base %s) %s %s %s)", s, g.addIdx(fmt.Sprintf("(off %s)", s), lo), g.subIdx(hi, lo), g.subIdx(mx, lo)))
	case *types.Pointer: // *array
		arr := u.Elem().Underlying().(*types.Array)
		lo, hi := g.idx(0), g.idx(arr.Len())
		if x.Low != nil {
			lo = g.toIdx(x.Low)
		}
		if x.High != nil {
			hi = g.toIdx(x.High)
		}
		mx := g.idx(arr.Len())
		if x.Max != nil {
			mx = g.toIdx(x.Max)
		}
		g.safety("slice", fmt.Sprintf("(and %s %s %s %s)", g.le(g.idx(0), lo, true), g.le(lo, hi, true), g.le(hi, mx, true), g.le(mx, g.idx(arr.Len()), true)), "array slice bounds in range")
		if bl, ok := fr.lv[x.X]; ok && !bl.obj {
			g.note("slice of non-heap array (havoc): %s", x)
			r := g.fresh("slc", "Slice")
			g.assumeAlways(g.sliceWF(r, false))
			fr.val[x] = r
			return
		}
		ref := g.term(x.X)
		fr.val[x] = g.define(x.Name(), "Slice", fmt.Sprintf("(mk-slice %s %s %s %s)", ref, lo, g.subIdx(hi, lo), g.subIdx(mx, lo)))
	}
}

func (g *Gen) makeSlice(x *ssa.MakeSlice) {
	fr := g.fr
	ln, cp := g.toIdx(x.Len), g.toIdx(x.Cap)
	g.safety("makeslice", fmt.Sprintf("(and %s %s)", g.le(g.idx(0), ln, true), g.le(ln, cp, true)), "make: 0 <= len <= cap")
	et := x.Type().Underlying().(*types.Slice).Elem()
	g.nfresh++
	base := g.newRefNumeral()
	c, inner := g.memComp(et)
	g.setComp(c, fmt.Sprintf("(store %s %s ((as const %s) %s))", g.heapGet(c), base, inner, g.zeroValue(et)))
	fr.val[x] = g.define(x.Name(), "Slice", fmt.Sprintf("(mk-slice %s %s %s %s)", base, g.idx(0), ln, cp))
}

// ---------- interfaces ----------

func (g *Gen) typeTag(t types.Type) string {
	name := "ty_" + g.w.typeName(t)
	key := "tytag:" + name
	if !g.prelSeen[key] {
		g.prelSeen[key] = true
		id := len(typeTagIds) + 1
		if v, ok := typeTagIds[name]; ok {
			id = v
		} else {
			typeTagIds[name] = id
		}
		g.prel = append(g.prel, fmt.Sprintf("(define-fun |%s| () Int %d)", name, id))
	}
	return "|" + name + "|"
}

var typeTagIds = map[string]int{}

func (g *Gen) needIface() {
	if g.prelSeen["iface"] {
		return
	}
	g.prelSeen["iface"] = true
	g.prel = append(g.prel, "(declare-fun itype (Int) Int)")
}

// payload accessor for concrete type t stored in an interface
func (g *Gen) ipayload(t types.Type) string {
	g.needIface()
	name := "ipay_" + g.w.typeName(t)
	if !g.funDecl[name] {
		g.funDecl[name] = true
		g.prel = append(g.prel, fmt.Sprintf("(declare-fun |%s| (Int) %s)", name, g.sortOf(t)))
		g.prel = append(g.prel, fmt.Sprintf("(declare-fun |ibox_%s| (%s) Int)", g.w.typeName(t), g.sortOf(t)))
	}
	return "|" + name + "|"
}

func (g *Gen) makeInterface(x *ssa.MakeInterface) {
	fr := g.fr
	t := x.X.Type()
	v := g.term(x.X)
	g.needIface()
	if _, isPtr := t.Underlying().(*types.Pointer); isPtr {
		// pointer in interface: interface value is the pointer itself (nil pointer => non-nil interface is ignored: approximated)
		r := g.fresh("iface", "Int")
		g.assumeAlways(fmt.Sprintf("(and (> %s 0) (= (itype %s) %s) (= (%s %s) %s))", r, r, g.typeTag(t), g.ipayload(t), r, v))
		fr.val[x] = r
		return
	}
	pay := g.ipayload(t)
	box := fmt.Sprintf("(|ibox_%s| %s)", g.w.typeName(t), v)
	r := g.define("iface", "Int", box)
	g.assumeAlways(fmt.Sprintf("(and (> %s 0) (= (itype %s) %s) (= (%s %s) %s))", r, r, g.typeTag(t), pay, r, v))
	fr.val[x] = r
}

func (g *Gen) typeAssert(x *ssa.TypeAssert) {
	fr := g.fr
	v := g.term(x.X)
	g.needIface()
	if _, isIface := x.AssertedType.Underlying().(*types.Interface); isIface {
		// interface-to-interface assertion: opaque success flag
		ok := g.fresh("ta_ok", "Bool")
		if x.CommaOk {
			fr.tuple[x] = []string{v, ok}
		} else {
			g.safety("typeassert", ok, "type assertion succeeds")
			fr.val[x] = v
		}
		return
	}
	okT := fmt.Sprintf("(and (not (= %s 0)) (= (itype %s) %s))", v, v, g.typeTag(x.AssertedType))
	pay := fmt.Sprintf("(%s %s)", g.ipayload(x.AssertedType), v)
	if x.CommaOk {
		okv := g.define("ta_ok", "Bool", okT)
		r := g.define("ta_val", g.sortOf(x.AssertedType), fmt.Sprintf("(ite %s %s %s)", okv, pay, g.zeroValue(x.AssertedType)))
		fr.tuple[x] = []string{r, okv}
		return
	}
	g.safety("typeassert", okT, "type assertion succeeds")
	fr.val[x] = g.define("ta_val", g.sortOf(x.AssertedType), pay)
}

// ---------- return ----------

func (g *Gen) ret(x *ssa.Return) {
	fr := g.fr
	if fr.inl {
		r := inlRet{reach: g.curR, heap: g.cur}
		for _, rv := range x.Results {
			r.results = append(r.results, g.term(rv))
		}
		fr.rets = append(fr.rets, r)
		return
	}
	g.nret++
	g.cover(fmt.Sprintf("return%d", g.nret))
	g.inRet = g.nret
	retFrom := len(g.defs)
	defer func() {
		g.retLocal = append(g.retLocal, [3]int{retFrom, len(g.defs), g.inRet})
		g.inRet = 0
	}()
	renv := g.curEnv()
	renv.old = nil
	renv.oldEntry = true
	retEnv := &TEnv{g: g, vars: map[string]tvT{}}
	g.bindResults(retEnv, fr.fn.Signature, func(i int) string { return g.term(x.Results[i]) })
	g.atAnchor("return", retEnv)
	env := g.contractEnv()
	g.bindResults(env, fr.fn.Signature, func(i int) string { return g.term(x.Results[i]) })
	env.old = nil
	env.oldEntry = true
	if fr.c != nil {
		for i, e := range fr.c.Ensures {
			p := g.transBool(e.E, env)
			o := g.ob("ensures", invLabel(e, i), p, e.E.String())
			if len(e.Opaque) > 0 {
				o.Opaque = e.Opaque
			}
			if !isKnownFindingName(o.Name) {
				g.assumeProved(g.curR, p)
			}
		}
		g.frameObligations(env)
	}
}

func (g *Gen) bindResults(env *TEnv, sig *types.Signature, get func(i int) string) {
	rs := sig.Results()
	for i := 0; i < rs.Len(); i++ {
		t := tvT{t: get(i), gt: rs.At(i).Type()}
		env.vars[fmt.Sprintf("r%d", i)] = t
		if n := rs.At(i).Name(); n != "" && n != "_" {
			env.vars[n] = t
		}
		if i == 0 {
			env.vars["result"] = t
		}
		if i == rs.Len()-1 && types.TypeString(rs.At(i).Type(), nil) == "error" {
			if _, taken := env.vars["err"]; !taken || rs.At(i).Name() == "err" {
				env.vars["err"] = t
			}
		}
	}
}

// ---------- calls ----------

func isIgnoredCall(callee *ssa.Function, cc *ssa.CallCommon) bool {
	if callee == nil {
		if cc != nil && !cc.IsInvoke() {
			// a function VALUE that can only be one of several ignored functions
			// (`trace := log.Debugf; if verbose { trace = log.Infof }; trace(...)`)
			return onlyIgnoredFuncs(cc.Value, map[ssa.Value]bool{})
		}
		return false
	}
	k := funcKey(callee)
	switch {
	case strings.HasPrefix(k, "(*sync."), strings.HasPrefix(k, "sync."), strings.HasPrefix(k, "(*sync/atomic."):
		return true
	case strings.HasPrefix(k, "github.com/ontio/ontology/common/log."), strings.HasPrefix(k, "(*github.com/ontio/ontology/common/log."):
		return true
	case strings.HasPrefix(k, "log."), strings.HasPrefix(k, "(*log."):
		return true
	case k == "fmt.Println" || k == "fmt.Printf" || k == "fmt.Print":
		return true
	case strings.HasPrefix(k, "(*github.com/ontio/ontology-eventbus/"):
		return false
	}
	return false
}

func onlyIgnoredFuncs(v ssa.Value, seen map[ssa.Value]bool) bool {
	if seen[v] {
		return true
	}
	seen[v] = true
	switch x := v.(type) {
	case *ssa.Function:
		return x.Parent() == nil && isIgnoredCall(x, nil)
	case *ssa.Phi:
		for _, e := range x.Edges {
			if !onlyIgnoredFuncs(e, seen) {
				return false
			}
		}
		return len(x.Edges) > 0
	}
	return false
}

func (g *Gen) contractFor(callee *ssa.Function, cc *ssa.CallCommon) *Contract {
	if callee != nil {
		if ct := g.w.DB.Funcs[funcKey(callee)]; ct != nil {
			return ct
		}
		// generic instantiation: try origin
		if o := callee.Origin(); o != nil {
			if ct := g.w.DB.Funcs[funcKey(o)]; ct != nil {
				return ct
			}
		}
		// package-level frame: uncontracted functions of a package declared with `pkgframe`
		if len(g.w.DB.PkgFrames) > 0 {
			pp := ""
			if callee.Pkg != nil && callee.Pkg.Pkg != nil {
				pp = callee.Pkg.Pkg.Path()
			} else if o := callee.Object(); o != nil && o.Pkg() != nil {
				pp = o.Pkg().Path()
			}
			if reason, ok := g.w.DB.PkgFrames[pp]; ok && callee.Parent() == nil {
				ct := &Contract{Key: funcKey(callee), Decl: funcKey(callee), Trusted: "package frame (" + pp + "): " + reason, Loops: map[int]*LoopC{}}
				g.w.DB.Funcs[ct.Key] = ct
				return ct
			}
		}
		return nil
	}
	if cc != nil && cc.IsInvoke() {
		recv := cc.Value.Type()
		key := "(" + types.TypeString(recv, nil) + ")." + cc.Method.Name()
		return g.w.DB.Funcs[key]
	}
	if cc != nil {
		if key := funcFieldKey(cc.Value); key != "" {
			return g.w.DB.Funcs[key]
		}
	}
	return nil
}

// a call through a function-typed struct field (ctx.CanTransfer(...)) may be given a contract under the
// key "(pkg/path.Struct).Field", the form of a method key
func funcFieldKey(v ssa.Value) string {
	var st types.Type
	var idx int
	switch x := v.(type) {
	case *ssa.UnOp:
		fa, ok := x.X.(*ssa.FieldAddr)
		if !ok || x.Op != token.MUL {
			return ""
		}
		st, idx = fa.X.Type().Underlying().(*types.Pointer).Elem(), fa.Field
	case *ssa.Field:
		st, idx = x.X.Type(), x.Field
	default:
		return ""
	}
	s, ok := st.Underlying().(*types.Struct)
	if !ok {
		return ""
	}
	return "(" + types.TypeString(st, nil) + ")." + s.Field(idx).Name()
}

func (g *Gen) inlineOK(f *ssa.Function, ct *Contract) bool {
	if ct != nil {
		return ct.Inline
	}
	if f == nil || f.Blocks == nil {
		return false
	}
	if f.Parent() != nil {
		return true // anonymous function with known identity
	}
	if g.abstract {
		return false
	}
	if f.Pkg == nil || !strings.HasPrefix(f.Pkg.Pkg.Path(), "github.com/ontio/ontology") {
		return false
	}
	// a small loop-free helper of the SAME package as the function under proof is seen through even when it
	// calls other functions (those calls are then handled at their own call sites): a helper extracted by a
	// refactoring does not turn into an unknown callee
	samePkg := g.top != nil && g.top.Pkg != nil && f.Pkg == g.top.Pkg && g.depth < 3
	n := 0
	for _, b := range f.Blocks {
		n += len(b.Instrs)
		for _, in := range b.Instrs {
			switch c := in.(type) {
			case ssa.CallInstruction:
				if _, isB := c.Common().Value.(*ssa.Builtin); !isB {
					if !samePkg {
						return false
					}
					if sc := c.Common().StaticCallee(); sc == f {
						return false // directly recursive
					}
				}
			case *ssa.Go, *ssa.Defer, *ssa.Select:
				return false
			}
		}
		for _, s := range b.Succs {
			if s.Dominates(b) {
				return false // loops need contracts
			}
		}
	}
	if samePkg {
		return n <= 40
	}
	return n <= 14
}

func (g *Gen) mkResult(name string, t types.Type) string {
	r := g.fresh(name, g.sortOf(t))
	if c := g.typeInv(r, t, false); c != "true" {
		g.assumeAlways(c)
	}
	return r
}

func (g *Gen) call(in *ssa.Call, cc *ssa.CallCommon) {
	g.callCommon(in, cc, g.curR)
}

func (g *Gen) callGuarded(guard string, cc *ssa.CallCommon) {
	save := g.curR
	before := copyMap(g.cur)
	g.curR = guard
	g.callCommon(nil, cc, guard)
	// conditional effect: merge with state before
	if guard != save {
		for n, v := range g.cur {
			bv, ok := before[n]
			if !ok {
				bv = g.entry[n]
			}
			if bv != v {
				g.cur[n] = fmt.Sprintf("(ite %s %s %s)", guard, v, bv)
			}
		}
	}
	g.curR = save
}

func (g *Gen) callCommon(in *ssa.Call, cc *ssa.CallCommon, guard string) {
	fr := g.fr
	if b, ok := cc.Value.(*ssa.Builtin); ok {
		g.builtin(in, b, cc)
		return
	}
	callee := cc.StaticCallee()
	var cl *closure
	if callee == nil && !cc.IsInvoke() {
		if c, ok := fr.clo[cc.Value]; ok {
			cl = c
			callee = c.fn
		}
	} else if callee != nil {
		if mc, ok := cc.Value.(*ssa.MakeClosure); ok {
			cl = fr.clo[mc]
		}
	}
	// verifhook intrinsics
	if callee != nil && callee.Pkg != nil && strings.HasSuffix(callee.Pkg.Pkg.Path(), "common/verifhook") {
		g.intrinsic(in, callee, cc)
		return
	}
	ct := g.contractFor(callee, cc)
	var resT types.Type
	if in != nil {
		resT = in.Type()
	}
	if callee != nil && callee.Blocks != nil && g.depth < 6 && g.inlineOK(callee, ct) {
		g.inlineCall(in, callee, cc, cl, ct)
		return
	}
	key := "<dynamic>"
	if callee != nil {
		key = shortFn(funcKey(callee))
	} else if cc.IsInvoke() {
		key = "(" + shortFn(types.TypeString(cc.Value.Type(), nil)) + ")." + cc.Method.Name()
	} else if fk := funcFieldKey(cc.Value); fk != "" {
		key = shortFn(fk)
	}
	var results []string
	if resT != nil {
		if tup, ok := resT.(*types.Tuple); ok {
			for i := 0; i < tup.Len(); i++ {
				results = append(results, g.mkResult(fmt.Sprintf("ret_%s_%d", key, i), tup.At(i).Type()))
			}
			fr.tuple[in] = results
		} else {
			results = append(results, g.mkResult("ret_"+key, resT))
			fr.val[in] = results[0]
		}
	}
	// environment: callee parameter names -> argument terms
	env := &TEnv{g: g, vars: map[string]tvT{}}
	if ct != nil {
		env.pkg = ct.Pkg
	}
	var sig *types.Signature
	var pnames []string
	var ptypes []types.Type
	if callee != nil {
		sig = callee.Signature
		for _, p := range callee.Params {
			pnames = append(pnames, p.Name())
			ptypes = append(ptypes, p.Type())
		}
		if callee.Params == nil {
			// no body loaded (package outside the verified roots): names from the signature
			if r := sig.Recv(); r != nil {
				n := r.Name()
				if n == "" || n == "_" {
					n = "self"
				}
				pnames = append(pnames, n)
				ptypes = append(ptypes, r.Type())
			}
			for i := 0; i < sig.Params().Len(); i++ {
				pnames = append(pnames, sig.Params().At(i).Name())
				ptypes = append(ptypes, sig.Params().At(i).Type())
			}
		}
	} else {
		sig = cc.Signature()
		if cc.IsInvoke() {
			pnames = append(pnames, "self")
			ptypes = append(ptypes, cc.Value.Type())
		}
		for i := 0; i < sig.Params().Len(); i++ {
			n := sig.Params().At(i).Name()
			if n == "" || n == "_" {
				n = fmt.Sprintf("a%d", i) // unnamed parameter of an interface method or function-typed field
			}
			pnames = append(pnames, n)
			ptypes = append(ptypes, sig.Params().At(i).Type())
		}
	}
	var args []ssa.Value
	if cc.IsInvoke() {
		args = append(args, cc.Value)
	}
	args = append(args, cc.Args...)
	for i, n := range pnames {
		if i < len(args) {
			env.vars[n] = tvT{t: g.term(args[i]), gt: ptypes[i]}
		}
	}
	// ordinal of this call site (for assert-at anchors)
	g.atAnchor(fmt.Sprintf("call %s#%d", lastName(key), fr.callOrdinal(cc, key)), env)
	g.atAnchor(fmt.Sprintf("call %s", lastName(key)), env)
	if callee == nil && !cc.IsInvoke() {
		// call through a function VALUE (table entry, field, variable): calling nil panics
		g.safety("nilcall", fmt.Sprintf("(not (= %s 0))", g.term(cc.Value)), "called function value is not nil")
	}
	if ct == nil {
		if isIgnoredCall(callee, cc) {
			return
		}
		g.note("uncontracted call (heap havoc): %s", key)
		g.havocAll(guard)
		return
	}
	if ct.Trusted != "" {
		g.trustedUsed[shortFn(ct.Key)+": "+ct.Trusted] = true
	}
	for _, a := range ct.Assumes {
		g.assumptions["unchecked assumption about the callers of "+shortFn(ct.Key)+": "+a.E.String()] = true
	}
	g.evalLets(ct, env.vars, false)
	for i, rq := range ct.Requires {
		g.ob("pre:"+key, invLabel(rq, i), g.transBool(rq.E, env), rq.E.String())
	}
	if callee != nil && callee == g.top && ct.Decreases != nil && g.depth == 0 {
		// direct recursion: the termination measure is smaller at the recursive call than at entry, and
		// bounded below -- the recursion depth (stack use) is then bounded by the measure's entry value
		dCall := g.trans(ct.Decreases, env)
		eenv := g.contractEnv()
		eenv.oldEntry = true
		dEntry := g.trans(ct.Decreases, eenv)
		var p string
		if g.bv {
			p = fmt.Sprintf("(and %s %s)", g.lt(dCall.t, dEntry.t, true), g.le(g.zeroOf(dEntry), dEntry.t, true))
		} else {
			p = fmt.Sprintf("(and (< %s %s) (<= 0 %s))", dCall.t, dEntry.t, dEntry.t)
		}
		g.ob("rec-decreases", "", p, "recursive call: "+ct.Decreases.String()+" decreases and is bounded below")
	}
	old := copyMap(g.cur)
	oldAll := map[string]string{}
	for n := range g.comps {
		oldAll[n] = g.heapGet(n)
	}
	_ = old
	// havoc assigns
	if ct.AssignsAll {
		g.havocAll(guard)
	}
	for _, tg := range g.assignTargets(ct, env) {
		g.havocTarget(tg)
	}
	g.bindResults(env, sig, func(i int) string { return results[i] })
	env.old = oldAll
	// objects the callee allocates: their components hold whatever the callee put there
	for _, a := range ct.Allocates {
		for _, tg := range g.targetsOf(a, env) {
			g.havocTarget(tg)
		}
	}
	g.ncallFresh++
	env.freshLo = fmt.Sprintf("%d000000000000", 1+g.ncallFresh)
	env.freshHi = fmt.Sprintf("%d000000000000", 2+g.ncallFresh)
	for _, e := range ct.Trusts {
		if ct.Mode == "int" && g.bv {
			break // see below: no mathematical-integer facts inside a bit-vector obligation
		}
		g.assume(guard, g.transBool(e.E, env))
		g.assumptions["trusted (unchecked) postcondition of "+shortFn(ct.Key)+": "+e.E.String()] = true
	}
	for _, e := range ct.Ensures {
		if g.fr.c != nil && e.Label != "" && g.fr.c.Ignores[lastName(key)+"#"+e.Label] {
			continue // the enclosing function's contract asks not to assume this (weaker context, sound)
		}
		if ct.Mode == "int" && g.bv && ct.Trusted == "" && !arithFree(e.E) {
			// a contract proved over mathematical integers cannot be restated inside a bit-vector
			// obligation (no bridges between the theories): its postconditions are not assumed here --
			// except those that involve no arithmetic at all (result != nil, fresh(result), p == q)
			g.note("postcondition of %s (arith int) is not assumed in this bit-vector function: %s", key, e.E.String())
			continue
		}
		// A postcondition written for the other arithmetic mode (bit operations in a contract that an
		// `arith int` caller uses) cannot be stated here: it is then NOT assumed (weaker context, sound)
		func() {
			nd, nc := len(g.defs), len(g.decls)
			defer func() {
				if r := recover(); r != nil {
					te, isT := r.(transErr)
					if !isT || !(strings.Contains(te.msg, "in int mode") || strings.Contains(te.msg, "in bv mode") || strings.Contains(te.msg, "width mismatch")) {
						panic(r)
					}
					g.defs, g.decls = g.defs[:nd], g.decls[:nc]
					g.note("postcondition of %s not usable in this arithmetic mode (dropped): %s", key, e.E.String())
				}
			}()
			g.assume(guard, g.transBool(e.E, env))
		}()
	}
	for i := range env.freshTerms {
		for j := i + 1; j < len(env.freshTerms); j++ {
			if env.freshTerms[i] != env.freshTerms[j] {
				g.assume(guard, fmt.Sprintf("(or (not (= %s %s)) (= %s 0))", env.freshTerms[i], env.freshTerms[j], env.freshTerms[i]))
			}
		}
	}
}

// arithFree: the expression speaks about references only -- identifiers, field selections, nil, booleans,
// (in)equality, fresh / whole / typeof / typetag -- and means the same in both arithmetic modes
func arithFree(e *Expr) bool {
	if e == nil {
		return true
	}
	switch e.Op {
	case "id", "nil", "true", "false", "sel", "lit":
	case "un":
		if e.Val != "!" {
			return false
		}
	case "bin":
		// comparisons of machine values mean the same in both modes (int mode models every conversion with
		// its wrap-around); sums, differences, products do not (a contract sum is mathematical in int mode)
		switch e.Val {
		case "&&", "||", "==>", "<==>", "==", "!=", "<", "<=", ">", ">=":
		default:
			return false
		}
	case "call":
		if len(e.Args) == 0 || e.Args[0].Op != "id" {
			return false
		}
		switch e.Args[0].Val {
		case "fresh", "whole", "typeof", "typetag", "old", "len", "cap":
		default:
			if _, isCast := castTypes[e.Args[0].Val]; !isCast {
				return false
			}
		}
	default:
		return false
	}
	for _, a := range e.Args {
		if !arithFree(a) {
			return false
		}
	}
	return true
}

// apply at <anchor>: lemma(args) -- the lemma (proved once, for all values) instantiated at these terms
func (g *Gen) applyLemma(a *AtClause, env *TEnv) {
	if g.fr.inl {
		return
	}
	if a.E.Op != "call" || a.E.Args[0].Op != "id" {
		g.fail("apply: expected lemma(args), got %s", a.E)
	}
	lm := g.w.DB.Lemmas[a.E.Args[0].Val]
	if lm == nil {
		g.fail("apply: unknown lemma %s", a.E.Args[0].Val)
	}
	if g.bv != (lm.Mode == "bv") {
		g.fail("apply: lemma %s is in %s mode", lm.Name, lm.Mode)
	}
	args := a.E.Args[1:]
	if len(args) != len(lm.Vars) {
		g.fail("apply: lemma %s takes %d arguments", lm.Name, len(lm.Vars))
	}
	e2 := g.curEnv()
	for k, v := range env.vars {
		if _, exists := e2.vars[k]; !exists {
			e2.vars[k] = v
		}
		e2.vars["callee_"+k] = v
	}
	e2.oldEntry = true
	lenv := &TEnv{g: g, vars: map[string]tvT{}, pkg: lm.Pkg}
	guard := "true"
	for i, v := range lm.Vars {
		t := g.trans(args[i], e2)
		gt, so := g.resolveType(v.Type, lm.Pkg)
		t.lit = nil
		if gt == nil || gt == mathInt {
			t = tvT{t: t.t, gt: gt, sort: so}
		}
		lenv.vars[v.Name] = t
		if v.Name == lm.Induct {
			guard = fmt.Sprintf("(<= 0 %s)", t.t)
		}
	}
	if g.firedAnchors == nil {
		g.firedAnchors = map[string]bool{}
	}
	g.firedAnchors[a.Anchor] = true
	g.usedLemmas[lm.Name] = true
	if lm.Axiom {
		g.assumptions["axiom "+lm.Name+" (assumed, not proved): "+lm.Body.String()] = true
	}
	g.assume(g.curR, fmt.Sprintf("(=> %s %s)", guard, g.transBool(lm.Body, lenv)))
}

func lastName(key string) string {
	if i := strings.LastIndex(key, "."); i >= 0 {
		return key[i+1:]
	}
	return key
}

func (g *Gen) atAnchor(anchor string, env *TEnv) {
	c := g.fr.c
	if c == nil {
		return
	}
	for _, a := range c.Asserts {
		if a.Anchor == anchor && a.Apply {
			g.applyLemma(a, env)
		}
	}
	g.ghostAtAnchor(anchor, env)
	for i, a := range c.Asserts {
		if a.Anchor == anchor && !a.Apply {
			if g.firedAnchors == nil {
				g.firedAnchors = map[string]bool{}
			}
			// parameters of the enclosing function are visible too (callee names shadow)
			e2 := g.curEnv()
			for k, v := range env.vars {
				if _, exists := e2.vars[k]; !exists {
					e2.vars[k] = v
				}
				e2.vars["callee_"+k] = v
			}
			e2.oldEntry = true
			p, ok := g.tryTransBool(a.E, e2)
			if !ok && anchor == "return" && !a.Assume && a.E.Op == "bin" && a.E.Val == "==>" {
				// `A ==> B` at a return where B speaks about program variables that do not exist on this
				// path: if A itself can be evaluated here (it speaks about results and parameters), this
				// return must not satisfy A -- otherwise a new early return would escape the clause
				if pa, okA := g.tryTransBool(a.E.Args[0], e2); okA {
					g.firedAnchors[anchor] = true
					g.ob("assert", invLabel(&Clause{Label: a.Label}, i), fmt.Sprintf("(not %s)", pa), a.Anchor+" (variables of the consequent are not defined on this path, so the antecedent must be false): "+a.E.Args[0].String())
				}
				continue
			}
			if !ok {
				continue // clause mentions a program variable that is not defined on this path
			}
			g.firedAnchors[anchor] = true
			if a.Assume {
				g.assume(g.curR, p)
				g.assumptions["unchecked assumption at `"+a.Anchor+"` in "+g.fnName+": "+a.E.String()] = true
				continue
			}
			saveHide := g.curHide
			if a.Local {
				var hide []int
				for _, ix := range g.invIdx {
					if ix < len(g.defs) && strings.Contains(g.defs[ix], "(forall ") {
						hide = append(hide, ix)
					}
				}
				g.curHide = hide
			}
			o := g.ob("assert", invLabel(&Clause{Label: a.Label}, i), p, a.Anchor+": "+a.E.String())
			g.curHide = saveHide
			if a.Cut {
				// everything quantified that was established before this point is summarised by the clause
				var hide []int
				for _, ix := range g.invIdx {
					if ix < len(g.defs) && strings.Contains(g.defs[ix], "(forall ") {
						hide = append(hide, ix)
					}
				}
				g.baseHide = hide
				g.curHide = append(append([]int{}, g.baseHide...), g.curHide...)
			}
			if !a.GoalOnly && !isKnownFindingName(o.Name) {
				g.assumeProved(g.curR, p)
			}
		}
	}
}

func (g *Gen) havocAll(guard string) {
	for _, n := range sortedKeys(g.comps) {
		if strings.HasPrefix(n, "L_") || strings.HasPrefix(n, "GH_") {
			continue
		}
		old := g.heapGet(n)
		nv := g.fresh("H_"+n+"@havoc", g.comps[n])
		// objects of this function that the callee cannot reach keep their contents
		for _, tgs := range g.privObjs {
			for _, tg := range tgs {
				if tg.comp == n && !tg.whole {
					nv = fmt.Sprintf("(store %s %s (select %s %s))", nv, tg.ref, old, tg.ref)
				}
			}
		}
		g.cur[n] = nv
	}
	g.assumptions["uncontracted callees do not write ghost state (ghost components are written only by contracted calls)"] = true
}

type target struct {
	comp  string
	ref   string // "" => whole component (scalar ghost)
	whole bool
}

func (g *Gen) havocTarget(tg target) {
	s := g.comps[tg.comp]
	if tg.whole {
		g.cur[tg.comp] = g.fresh("H_"+tg.comp+"@call", s)
		return
	}
	h := g.heapGet(tg.comp)
	inner := s[len("(Array Int ") : len(s)-1]
	nv := g.fresh("hv_"+tg.comp, inner)
	g.setComp(tg.comp, fmt.Sprintf("(store %s %s %s)", h, tg.ref, nv))
	// what a callee stored there may be an object it allocated: values loaded from this version
	// are not known to predate the function
	delete(g.pristine, g.cur[tg.comp])
}

// builtins
func (g *Gen) builtin(in *ssa.Call, b *ssa.Builtin, cc *ssa.CallCommon) {
	fr := g.fr
	set := func(t string) {
		if in != nil {
			fr.val[in] = t
		}
	}
	switch b.Name() {
	case "len":
		a := g.term(cc.Args[0])
		switch u := cc.Args[0].Type().Underlying().(type) {
		case *types.Slice, *types.Basic:
			set(fmt.Sprintf("(len %s)", a))
		case *types.Array:
			set(g.idx(u.Len()))
		case *types.Pointer:
			set(g.idx(u.Elem().Underlying().(*types.Array).Len()))
		case *types.Map:
			set(g.mapLen(a, cc.Args[0].Type()))
		default:
			set(g.fresh("len", g.idxSort()))
		}
	case "cap":
		a := g.term(cc.Args[0])
		switch u := cc.Args[0].Type().Underlying().(type) {
		case *types.Slice:
			set(fmt.Sprintf("(cap %s)", a))
		case *types.Array:
			set(g.idx(u.Len()))
		default:
			set(g.fresh("cap", g.idxSort()))
		}
	case "copy":
		g.copyBuiltin(in, cc)
	case "append":
		g.appendBuiltin(in, cc)
	case "delete":
		g.mapDelete(cc)
	case "panic":
		g.safety("panic-unreachable", "false", "explicit panic is unreachable")
	case "print", "println":
	case "min", "max":
		a, bb := g.term(cc.Args[0]), g.term(cc.Args[1])
		s := isSigned(cc.Args[0].Type())
		if b.Name() == "min" {
			set(fmt.Sprintf("(ite %s %s %s)", g.le(a, bb, s), a, bb))
		} else {
			set(fmt.Sprintf("(ite %s %s %s)", g.le(a, bb, s), bb, a))
		}
	default:
		g.note("builtin havoc: %s", b.Name())
		if in != nil {
			set(g.fresh("bi_"+b.Name(), g.sortOf(in.Type())))
		}
	}
}

func (g *Gen) copyBuiltin(in *ssa.Call, cc *ssa.CallCommon) {
	dst, src := g.term(cc.Args[0]), g.term(cc.Args[1])
	et := cc.Args[0].Type().Underlying().(*types.Slice).Elem()
	c, inner := g.memComp(et)
	ld, ls := fmt.Sprintf("(len %s)", dst), fmt.Sprintf("(len %s)", src)
	n := g.define("copyn", g.idxSort(), fmt.Sprintf("(ite %s %s %s)", g.lt(ld, ls, true), ld, ls))
	h := g.heapGet(c)
	na := g.fresh("copydst", inner)
	i := "i"
	offd, offs := fmt.Sprintf("(off %s)", dst), fmt.Sprintf("(off %s)", src)
	g.assumeAlways(fmt.Sprintf("(forall ((%s %s)) (! (= (select %s %s) (ite (and %s %s) (select (select %s (base %s)) %s) (select (select %s (base %s)) %s))) :pattern ((select %s %s))))",
		i, g.idxSort(), na, i, g.le(offd, i, true), g.lt(i, g.addIdx(offd, n), true),
		h, src, g.elemIdx(offs, g.subIdx(i, offd)), h, dst, i, na, i))
	g.setComp(c, fmt.Sprintf("(ite %s %s (store %s (base %s) %s))", g.le(n, g.idx(0), true), h, h, dst, na))
	if in != nil {
		g.fr.val[in] = n
	}
}

func (g *Gen) appendBuiltin(in *ssa.Call, cc *ssa.CallCommon) {
	a := g.term(cc.Args[0])
	st, ok := cc.Args[0].Type().Underlying().(*types.Slice)
	if !ok {
		g.fr.val[in] = g.fresh("app", "Slice")
		return
	}
	et := st.Elem()
	c, inner := g.memComp(et)
	if len(cc.Args) < 2 {
		g.fr.val[in] = a
		return
	}
	b := g.term(cc.Args[1]) // always a slice (variadic) or string
	lb := fmt.Sprintf("(len %s)", b)
	la := fmt.Sprintf("(len %s)", a)
	nl := g.define("applen", g.idxSort(), g.addIdx(la, lb))
	h := g.heapGet(c)
	fits := g.le(nl, fmt.Sprintf("(cap %s)", a), true)
	g.nfresh++
	nb := g.newRefNumeral()
	ncap := g.fresh("appcap", g.idxSort())
	g.assumeAlways(fmt.Sprintf("(and %s %s)", g.le(nl, ncap, true), g.lt(ncap, g.idx(281474976710656), true)))
	r := g.define("app", "Slice", fmt.Sprintf("(ite %s (mk-slice (base %s) (off %s) %s (cap %s)) (mk-slice %s %s %s %s))", fits, a, a, nl, a, nb, g.idx(0), nl, ncap))
	// contents: target array = in-place or fresh; elements [off+la, off+la+lb) from b; prefix preserved
	na := g.fresh("apparr", inner)
	i := "i"
	offa := fmt.Sprintf("(off %s)", a)
	offb := fmt.Sprintf("(off %s)", b)
	roff := fmt.Sprintf("(off %s)", r)
	// for index i in result-array coordinates
	srcMem := h
	if isString(cc.Args[1].Type()) {
		cb, _ := g.memComp(types.Typ[types.Uint8])
		srcMem = g.heapGet(cb)
	}
	g.assumeAlways(fmt.Sprintf("(forall ((%s %s)) (! (= (select %s %s) (ite (and %s %s) (select (select %s (base %s)) %s) (ite (and %s %s) (select (select %s (base %s)) %s) (ite %s (select (select %s (base %s)) %s) %s)))) :pattern ((select %s %s))))",
		i, g.idxSort(), na, i,
		// appended range
		g.le(g.addIdx(roff, la), i, true), g.lt(i, g.addIdx(roff, nl), true),
		srcMem, b, g.elemIdx(offb, g.subIdx(i, g.addIdx(roff, la))),
		// prefix
		g.le(roff, i, true), g.lt(i, g.addIdx(roff, la), true),
		h, a, g.elemIdx(offa, g.subIdx(i, roff)),
		// outside: in place keeps old, fresh is zero
		fits, h, a, i, g.zeroValue(et),
		na, i))
	// (when nothing is appended the result is the first argument and `na` equals its old row, so the store is
	// the identity; no case split on the length is needed -- an `ite` between two heap versions hides the
	// row from E-matching)
	g.setComp(c, fmt.Sprintf("(store %s (base %s) %s)", h, r, na))
	if in != nil {
		g.fr.val[in] = r
	}
}

// verifhook intrinsics: Assume, Assert, Nondet*
func (g *Gen) intrinsic(in *ssa.Call, callee *ssa.Function, cc *ssa.CallCommon) {
	switch callee.Name() {
	case "Assume":
		c := g.term(cc.Args[0])
		g.assume(g.curR, c)
		// narrow reachability so later obligations see it
		g.curR = g.define("reach_assume", "Bool", fmt.Sprintf("(and %s %s)", g.curR, c))
	case "Assert":
		label := ""
		if len(cc.Args) > 1 {
			if k, ok := cc.Args[1].(*ssa.Const); ok && k.Value != nil {
				label = strings.Trim(k.Value.ExactString(), "\"")
			}
		}
		c := g.term(cc.Args[0])
		g.ob("assert", label, c, "verifhook.Assert")
		g.assumeProved(g.curR, c)
	default:
		if in != nil {
			if tup, ok := in.Type().(*types.Tuple); ok {
				var rs []string
				for i := 0; i < tup.Len(); i++ {
					rs = append(rs, g.mkResult("nondet", tup.At(i).Type()))
				}
				g.fr.tuple[in] = rs
			} else {
				g.fr.val[in] = g.mkResult("nondet", in.Type())
			}
		}
	}
}

// ---------- inlining ----------

func (g *Gen) inlineCall(in *ssa.Call, callee *ssa.Function, cc *ssa.CallCommon, cl *closure, ct *Contract) {
	caller := g.fr
	g.inlinedFns[shortFn(funcKey(callee))] = true
	nf := newFrame(callee, ct)
	nf.inl = true
	nf.oldHeap = caller.oldHeap
	args := cc.Args
	for i, p := range callee.Params {
		if i < len(args) {
			nf.val[p] = g.term(args[i])
			if c, ok := caller.clo[args[i]]; ok {
				nf.clo[p] = c
			} else if f, ok := args[i].(*ssa.Function); ok {
				nf.clo[p] = &closure{fn: f}
			}
			if l, ok := caller.lv[args[i]]; ok {
				nf.lv[p] = l
			}
			nf.params[p.Name()] = tvT{t: nf.val[p], gt: p.Type()}
		}
	}
	if cl != nil {
		for i, fv := range callee.FreeVars {
			if i < len(cl.bterms) {
				nf.fvs[fv] = cl.bterms[i]
				if l, ok := cl.owner.lv[cl.bindings[i]]; ok {
					nf.lv[fv] = l
				}
				if c2, ok := cl.owner.clo[cl.bindings[i]]; ok {
					nf.clo[fv] = c2
				}
			}
		}
	}
	saveR := g.curR
	g.fr = nf
	g.depth++
	g.runFrame()
	g.depth--
	g.fr = caller
	rets := nf.rets
	if len(rets) == 0 {
		g.curR = "false"
		g.cur = map[string]string{}
		if in != nil {
			if tup, ok := in.Type().(*types.Tuple); ok {
				var rs []string
				for i := 0; i < tup.Len(); i++ {
					rs = append(rs, g.fresh("dead", g.sortOf(tup.At(i).Type())))
				}
				caller.tuple[in] = rs
			} else {
				caller.val[in] = g.fresh("dead", g.sortOf(in.Type()))
			}
		}
		return
	}
	_ = saveR
	var rs []string
	for _, r := range rets {
		rs = append(rs, r.reach)
	}
	if len(rs) == 1 {
		g.curR = rs[0]
		g.cur = copyMap(rets[0].heap)
	} else {
		g.curR = g.define("after_"+callee.Name(), "Bool", "(or "+strings.Join(rs, " ")+")")
		names := map[string]bool{}
		for _, r := range rets {
			for n := range r.heap {
				names[n] = true
			}
		}
		g.cur = map[string]string{}
		for _, n := range sortedBoolKeys(names) {
			var vals []string
			allP := true
			for _, r := range rets {
				hv, ok := r.heap[n]
				if !ok {
					hv = g.entry[n]
				}
				if !g.pristine[hv] {
					allP = false
				}
				vals = append(vals, hv)
			}
			m := mergeIte(rs, vals)
			if allP {
				g.pristine[m] = true
			}
			g.cur[n] = m
		}
	}
	if in == nil {
		return
	}
	sig := callee.Signature.Results()
	var results []string
	for k := 0; k < sig.Len(); k++ {
		var vals []string
		for _, r := range rets {
			vals = append(vals, r.results[k])
		}
		results = append(results, g.define("inl_"+callee.Name(), g.sortOf(sig.At(k).Type()), mergeIte(rs, vals)))
	}
	if sig.Len() == 1 {
		caller.val[in] = results[0]
	} else {
		caller.tuple[in] = results
	}
}

// isAssignTarget: the identifier occurrence is a definition or the target of an assignment
// (x := e, x = e, x += e, x++, var x = e, range key/value) in the function's syntax.
func (g *Gen) isAssignTarget(fr *frame, id *ast.Ident) bool {
	if fr.assignPos == nil {
		fr.assignPos = map[token.Pos]bool{}
		if syn := fr.fn.Syntax(); syn != nil {
			ast.Inspect(syn, func(n ast.Node) bool {
				switch s := n.(type) {
				case *ast.AssignStmt:
					for _, l := range s.Lhs {
						if i, ok := l.(*ast.Ident); ok {
							fr.assignPos[i.Pos()] = true
						}
					}
				case *ast.IncDecStmt:
					if i, ok := s.X.(*ast.Ident); ok {
						fr.assignPos[i.Pos()] = true
					}
				case *ast.ValueSpec:
					for _, i := range s.Names {
						fr.assignPos[i.Pos()] = true
					}
				case *ast.RangeStmt:
					if i, ok := s.Key.(*ast.Ident); ok {
						fr.assignPos[i.Pos()] = true
					}
					if i, ok := s.Value.(*ast.Ident); ok {
						fr.assignPos[i.Pos()] = true
					}
				}
				return true
			})
		}
	}
	return fr.assignPos[id.Pos()]
}
