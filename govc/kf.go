// Obligations recorded as known findings (status "finding") are reported and tolerated -- but a clause
// that is known to FAIL must not be assumed for what follows it ("asserted, then assumed"): everything
// proved after it would be proved from a falsehood. (Observed: with the failing C28 threshold assertion
// assumed, the C32 obligation "m >= C+1" was discharged although it is false.)
package main

import (
	"encoding/json"
	"os"
	"path/filepath"
	"sync"
)

var (
	kfOnce  sync.Once
	kfNames map[string]bool
)

func isKnownFindingName(name string) bool {
	kfOnce.Do(func() {
		kfNames = map[string]bool{}
		b, err := os.ReadFile(filepath.Join(verifRoot(), "known_findings.json"))
		if err != nil {
			return
		}
		var f struct {
			Findings []struct {
				Obligation string `json:"obligation"`
				Status     string `json:"status"`
			} `json:"findings"`
		}
		if json.Unmarshal(b, &f) != nil {
			return
		}
		for _, x := range f.Findings {
			if x.Status == "finding" {
				kfNames[x.Obligation] = true
			}
		}
	})
	return kfNames[name]
}
