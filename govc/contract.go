// Contract files: //@ comment blocks in Go files of /repo compiled under tag `verif`.
package main

import (
	"fmt"
	"go/ast"
	"strconv"
	"strings"

	"golang.org/x/tools/go/packages"
)

type Clause struct {
	Label  string
	E      *Expr
	Opaque []string // spec functions treated as uninterpreted when this clause is checked
}

type LoopC struct {
	Vars      []string // `loop N (v1, v2):` -- loop-carried source variables this loop must have (binding check)
	Inv       []*Clause
	Decreases *Expr
	Unroll    int
	// KeepsOld ("keeps old objects"): the loop writes only objects allocated during the function; every
	// object that existed at function entry keeps its contents (assumed at the head, proved at back edges)
	KeepsOld bool
	// Forgets ("forgets earlier invariants"): obligations generated inside this loop's body do not see the
	// quantified invariants / proof steps established before the loop head was reached (the loop's own
	// invariants must carry what the body needs). Fewer hypotheses: sound, and it keeps queries small.
	Forgets bool
}

type AtClause struct {
	Local    bool // `derive at <anchor>: e`: like assert, but proved WITHOUT the quantified invariants / proof steps established so far (a fact that follows from the last few statements alone; keeps its query small)
	Cut      bool // `cut at <anchor>: e`: proved there and assumed; every quantified invariant / proof step established BEFORE is hidden from all later obligations (e summarises what the rest of the function needs)
	Apply    bool // `apply at <anchor>: lemma(args)`: the named lemma, instantiated at these terms, is assumed there
	Anchor string // "call <name>#k"
	Label  string
	E      *Expr
	GoalOnly bool // "check at": not assumed afterwards
	Assume   bool // "assume at": unchecked, listed
}

type Contract struct {
	Key      string // canonical function key
	Decl     string // as written
	Pkg      *packages.Package
	Mode     string // "int" | "bv" | "" (inherit / default bv)
	Requires []*Clause
	Assumes  []*Clause
	Ensures  []*Clause
	Assigns  []*Expr
	Allocates []*Expr
	AbsIdx bool // `absolute positions`: quantifiers over slice indices are instantiated by absolute array position (sub-slices of one array then share instantiation patterns)
	Sliced bool // `sliced context`: each query keeps only the context lines connected (through shared symbols) to its goal
	StructuralOnly bool // `structural`: only the obligations decided on the shape of the code are generated (no symbolic execution of the body)
	NoMapIter bool // `no map iteration`: neither the function nor any same-package function it calls (transitively) iterates over a Go map, selects, or starts a goroutine; callees in other packages are assumed order-insensitive (listed)
	DetReason string // `deterministic "why"`: the function's own map iterations are order-insensitive for the stated reason (listed as an assumption); everything else is checked as usual
	Deterministic bool // `deterministic`: no map iteration, channel operation, goroutine, or call of a function that is not itself declared deterministic
	EveryLoopIterates bool // `every loop iterates`: each for/range statement of the source has a back edge (can reach a second iteration)
	Ignores  map[string]bool // "<callee>#<label>": postconditions of callees NOT assumed inside this function (keeps quantified facts that only cause matching loops out of its queries)
	Trusts   []*Clause // postconditions callers may assume although the function's own proof does NOT establish them (listed as assumptions)
	AssignsAll bool
	Pure     bool
	Inline   bool
	Trusted  string
	NoPanic  bool // safety obligations claimed (default true for verified functions)
	NoSafety bool // suppress safety obligations (abstraction mode)
	Opaque   []string // spec functions hidden (as a raced second variant) for every obligation of this function
	Abstract bool // abstraction mode: nil/index/slice safety not generated, unknown callees havoc non-ghost heap only
	Loops    map[int]*LoopC
	Asserts  []*AtClause
	GhostAts []*GhostAt
	Replay   []string
	Decreases *Expr
	Using    []string
	Lets     []*Clause // let name = expr (Label = name), evaluated in the pre-state
	Dead     map[string]bool // cover labels (return3, ...) that are expected to be unreachable: dead code in the source
	File     string
}

type SpecFn struct {
	Name   string
	Params []Binder
	Ret    *TypeX
	Body   *Expr
	Pkg    *packages.Package
	Rec    bool
	Macro  bool // expanded at each use (body may read the heap)
}

type Lemma struct {
	Name  string
	Vars  []Binder
	Body  *Expr
	Mode  string
	Using []string
	Pkg   *packages.Package
	Axiom bool
	Induct string // name of the (integer, >= 0) variable the lemma is proved by induction on ("" = none)
}

type GhostVar struct {
	Name string
	Type *TypeX
	Pkg  *packages.Package
	// State: a ghost map that abstracts real state living outside the verifier's heap (contract storage):
	// unlike ordinary ghost variables it is forgotten by every uncontracted callee (it behaves like heap),
	// and frame obligations about it range over ALL keys
	State bool
}

type ConstDef struct {
	Name string
	Val  string // decimal literal
	Pkg  *packages.Package
}

type ContractDB struct {
	Funcs  map[string]*Contract
	Specs  map[string]*SpecFn // by name (global namespace; last wins is an error)
	Lemmas map[string]*Lemma
	Ghosts map[string]*GhostVar
	Consts map[string]*ConstDef
	OnAlloc     []*OnAlloc
	PkgFrames   map[string]string // package path -> reason: its uncontracted functions write no tracked state (trusted)
	FileImports map[string]map[string]string // package path -> import alias (in its contract files) -> import path
	GlobalDecls []*ConstDef // package-level variables whose initial value is obtained by eval
	EvalConsts  []*ConstDef // evalconst NAME = <Go expr> (evaluated by running the package)
	Order  []string // lemma order
	Errors []string
}

func newDB() *ContractDB {
	profiled = map[string]bool{}
	return &ContractDB{Funcs: map[string]*Contract{}, Specs: map[string]*SpecFn{}, Lemmas: map[string]*Lemma{}, Ghosts: map[string]*GhostVar{}, Consts: map[string]*ConstDef{}}
}

var subKeywords = map[string]bool{"arith": true, "requires": true, "assumes": true, "allocates": true, "ensures": true, "assigns": true, "pure": true, "inline": true,
	"trusted": true, "loop": true, "invariant": true, "decreases": true, "unroll": true, "assert": true, "check": true, "assume": true, "replay": true,
	"nosafety": true, "abstract": true, "using": true, "let": true, "opaque": true, "keeps": true, "dead": true, "trusts": true, "ignores": true, "every": true, "deterministic": true, "apply": true, "forgets": true, "derive": true, "cut": true, "absolute": true, "sliced": true, "no": true, "structural": true}
// contract profile selected by the property being checked ("" = default contracts only)
var activeProfile string
var profiled = map[string]bool{}

var topKeywords = map[string]bool{"func": true, "spec": true, "macro": true, "lemma": true, "axiom": true, "ghost": true, "const": true, "global": true, "evalconst": true, "onalloc": true, "pkgframe": true}

// collect //@ lines of a file, joined into logical clauses.
func contractLines(f *ast.File) []string {
	var raw []string
	for _, cg := range f.Comments {
		for _, c := range cg.List {
			t := c.Text
			if strings.HasPrefix(t, "//@") {
				raw = append(raw, strings.TrimSpace(t[3:]))
			} else if strings.HasPrefix(t, "// @") {
				raw = append(raw, strings.TrimSpace(t[4:]))
			}
		}
	}
	var out []string
	for _, l := range raw {
		if l == "" {
			continue
		}
		w := strings.Fields(l)[0]
		w = strings.TrimSuffix(w, ":")
		if topKeywords[w] || subKeywords[w] {
			out = append(out, l)
		} else if len(out) > 0 {
			out[len(out)-1] += " " + l
		}
	}
	return out
}

func (db *ContractDB) errf(format string, a ...interface{}) {
	db.Errors = append(db.Errors, fmt.Sprintf(format, a...))
}

func splitLabel(s string) (string, string) {
	l, _, e := splitLabelOpaque(s)
	return l, e
}

// "#label{opaque1,opaque2}: expr"
func splitLabelOpaque(s string) (string, []string, string) {
	s = strings.TrimSpace(s)
	if strings.HasPrefix(s, "#") {
		i := strings.Index(s, ":")
		if i > 0 {
			lab := s[1:i]
			var op []string
			if j := strings.Index(lab, "{"); j >= 0 && strings.HasSuffix(lab, "}") {
				for _, o := range strings.Split(lab[j+1:len(lab)-1], ",") {
					op = append(op, strings.TrimSpace(o))
				}
				lab = lab[:j]
			}
			return lab, op, strings.TrimSpace(s[i+1:])
		}
	}
	return "", nil, s
}

func (db *ContractDB) parseBinders(s string, where string) []Binder {
	s = strings.TrimSpace(s)
	if s == "" {
		return nil
	}
	toks, err := lex(s)
	if err != nil {
		db.errf("%s: %v", where, err)
		return nil
	}
	p := &parser{toks: toks, src: s}
	var out []Binder
	func() {
		defer func() {
			if r := recover(); r != nil {
				db.errf("%s: %v", where, r)
			}
		}()
		for p.peek().kind != "eof" {
			n := p.next()
			t := p.typ()
			out = append(out, Binder{n.text, t})
			if p.isOp(",") {
				p.next()
			}
		}
	}()
	return out
}

func parseTypeStr(s string) (t *TypeX, err error) {
	defer func() {
		if r := recover(); r != nil {
			err = fmt.Errorf("%v", r)
		}
	}()
	toks, err := lex(s)
	if err != nil {
		return nil, err
	}
	p := &parser{toks: toks, src: s}
	t = p.typ()
	return t, nil
}

func (db *ContractDB) mustExpr(s, where string) *Expr {
	e, err := ParseExpr(s)
	if err != nil {
		db.errf("%s: %v", where, err)
		return &Expr{Op: "id", Val: "true"}
	}
	return e
}

// canonical key of a function declaration written in a contract file:
//   Name | (*T).Name | (T).Name | path/to/pkg.Name | path/to/pkg.(*T).Name
func canonKey(decl string, pkgPath string) string {
	decl = strings.TrimSpace(decl)
	if strings.HasPrefix(decl, "(") {
		// (*T).M or (T).M in this package
		i := strings.Index(decl, ")")
		recv := decl[1:i]
		star := ""
		if strings.HasPrefix(recv, "*") {
			star = "*"
			recv = recv[1:]
		}
		if recv == "error" { // the predeclared interface: (error).Error
			return "(error)" + decl[i+1:]
		}
		if strings.Contains(recv, ".") { // already qualified: (path/to/pkg.Iface).M
			return "(" + star + recv + ")" + decl[i+1:]
		}
		return "(" + star + pkgPath + "." + recv + ")" + decl[i+1:]
	}
	if i := strings.Index(decl, ".("); i >= 0 {
		// pkg/path.(*T).M
		p := decl[:i]
		rest := decl[i+1:]
		j := strings.Index(rest, ")")
		recv := rest[1:j]
		star := ""
		if strings.HasPrefix(recv, "*") {
			star = "*"
			recv = recv[1:]
		}
		return "(" + star + p + "." + recv + ")" + rest[j+1:]
	}
	if strings.Contains(decl, "/") || strings.Count(decl, ".") >= 1 {
		// qualified: last dot separates pkg path and name ($ suffix for closures allowed)
		return decl
	}
	return pkgPath + "." + decl
}

func (db *ContractDB) loadFile(pkg *packages.Package, f *ast.File, fname string) {
	if db.FileImports == nil {
		db.FileImports = map[string]map[string]string{}
	}
	if db.FileImports[pkg.PkgPath] == nil {
		db.FileImports[pkg.PkgPath] = map[string]string{}
	}
	for _, im := range f.Imports {
		if im.Name != nil && im.Name.Name != "_" && im.Name.Name != "." {
			db.FileImports[pkg.PkgPath][im.Name.Name] = strings.Trim(im.Path.Value, "\"")
		}
	}
	lines := contractLines(f)
	var cur *Contract
	var curLoop *LoopC
	var curLemma *Lemma
	for _, l := range lines {
		fs := strings.Fields(l)
		kw := strings.TrimSuffix(fs[0], ":")
		rest := strings.TrimSpace(l[len(fs[0]):])
		where := fname + ": " + l
		switch kw {
		case "func":
			// `func F @profile`: an alternative contract of F, used instead of the default one when the
			// property being checked selects that profile (two properties may need different abstractions
			// of the same function); ignored otherwise
			profile := ""
			if i := strings.LastIndex(rest, " @"); i >= 0 {
				profile = strings.TrimSpace(rest[i+2:])
				rest = strings.TrimSpace(rest[:i])
			}
			cur = &Contract{Decl: rest, Key: canonKey(rest, pkg.PkgPath), Pkg: pkg, Loops: map[int]*LoopC{}, File: fname}
			curLoop, curLemma = nil, nil
			if profile != "" {
				if profile != activeProfile {
					continue // parsed into a contract nobody looks up
				}
				if profiled[cur.Key] {
					db.errf("%s: duplicate contract for %s @%s", fname, cur.Key, profile)
				}
				profiled[cur.Key] = true
				db.Funcs[cur.Key] = cur
				continue
			}
			if profiled[cur.Key] {
				continue
			}
			if _, dup := db.Funcs[cur.Key]; dup {
				db.errf("%s: duplicate contract for %s", fname, cur.Key)
			}
			db.Funcs[cur.Key] = cur
			curLoop, curLemma = nil, nil
		case "spec", "macro":
			// spec name(params) Ret [= body]
			// macro name(params) Ret = body : expanded at every use in the user's state, so the body may
			// read the heap (mem(s), p.f); a spec with a body is one global definition and may not
			cur, curLoop, curLemma = nil, nil, nil
			i := strings.Index(rest, "(")
			j := matchParen(rest, i)
			if i < 0 || j < 0 {
				db.errf("%s: bad spec", where)
				continue
			}
			name := strings.TrimSpace(rest[:i])
			params := db.parseBinders(rest[i+1:j], where)
			tail := strings.TrimSpace(rest[j+1:])
			var body *Expr
			retS := tail
			if k := strings.Index(tail, "="); k >= 0 && !strings.HasPrefix(tail[k:], "==") {
				retS = strings.TrimSpace(tail[:k])
				body = db.mustExpr(tail[k+1:], where)
			}
			rt, err := parseTypeStr(retS)
			if err != nil {
				db.errf("%s: %v", where, err)
				continue
			}
			sf := &SpecFn{Name: name, Params: params, Ret: rt, Body: body, Pkg: pkg, Macro: kw == "macro"}
			if body != nil && mentionsCall(body, name) {
				sf.Rec = true
			}
			if _, dup := db.Specs[name]; dup {
				db.errf("%s: duplicate spec %s", fname, name)
			}
			db.Specs[name] = sf
		case "lemma", "axiom":
			// lemma name [int|bv] (binders): expr
			cur, curLoop = nil, nil
			i := strings.Index(rest, ":")
			head := rest
			bodyS := "true"
			// find the ':' that ends the head (after optional binders in parens)
			if p := strings.Index(rest, "("); p >= 0 && p < i {
				q := matchParen(rest, p)
				i = q + 1 + strings.Index(rest[q+1:], ":")
			}
			if i < 0 {
				db.errf("%s: bad lemma", where)
				continue
			}
			head = strings.TrimSpace(rest[:i])
			bodyS = rest[i+1:]
			lm := &Lemma{Pkg: pkg, Axiom: kw == "axiom", Mode: "int"}
			if p := strings.Index(head, "("); p >= 0 {
				q := matchParen(head, p)
				lm.Vars = db.parseBinders(head[p+1:q], where)
				if tail := strings.Fields(head[q+1:]); len(tail) == 2 && tail[0] == "induction" {
					lm.Induct = tail[1]
				} else if len(tail) != 0 {
					db.errf("%s: unexpected text after the binders of a lemma: %q", where, head[q+1:])
				}
				head = strings.TrimSpace(head[:p])
			}
			hf := strings.Fields(head)
			lm.Name = hf[0]
			if len(hf) > 1 {
				lm.Mode = hf[1]
			}
			lm.Body = db.mustExpr(bodyS, where)
			if _, dup := db.Lemmas[lm.Name]; dup {
				db.errf("%s: duplicate lemma %s", fname, lm.Name)
			}
			db.Lemmas[lm.Name] = lm
			db.Order = append(db.Order, lm.Name)
			curLemma = lm
		case "using":
			for _, u := range strings.Split(rest, ",") {
				if curLemma != nil {
					curLemma.Using = append(curLemma.Using, strings.TrimSpace(u))
				} else if cur != nil {
					cur.Using = append(cur.Using, strings.TrimSpace(u))
				}
			}
		case "ghost":
			// ghost var name Type
			if len(fs) >= 4 && (fs[1] == "var" || fs[1] == "state") {
				t, err := parseTypeStr(strings.Join(fs[3:], " "))
				if err != nil {
					db.errf("%s: %v", where, err)
					continue
				}
				db.Ghosts[fs[2]] = &GhostVar{Name: fs[2], Type: t, Pkg: pkg, State: fs[1] == "state"}
			} else if len(fs) >= 3 && fs[1] == "at" && cur != nil {
				// ghost at <anchor>: <ghost lvalue> = <expr>   (ghost update at a program point)
				r := strings.TrimPrefix(rest, "at ")
				i := strings.Index(r, ":")
				j := strings.Index(r, " = ")
				if i < 0 || j < i {
					db.errf("%s: bad ghost at", where)
					continue
				}
				cur.GhostAts = append(cur.GhostAts, &GhostAt{Anchor: strings.TrimSpace(r[:i]), Lhs: db.mustExpr(r[i+1:j], where), Rhs: db.mustExpr(r[j+3:], where)})
			} else {
				db.errf("%s: bad ghost decl", where)
			}
		case "pkgframe":
			// pkgframe <package path> "<reason>": every function of that package that has no contract of its
			// own is treated as a TRUSTED callee that writes nothing the verifier tracks (its results are
			// unconstrained). One auditable claim per package instead of one per helper; listed as trusted.
			if len(fs) >= 3 {
				if db.PkgFrames == nil {
					db.PkgFrames = map[string]string{}
				}
				db.PkgFrames[fs[1]] = strings.Trim(strings.TrimSpace(strings.TrimPrefix(rest, fs[1])), "\"")
			} else {
				db.errf("%s: bad pkgframe", where)
			}
		case "onalloc":
			// onalloc <type> <ghost map> <value>: a freshly allocated object of the type gets this ghost value
			if len(fs) >= 4 {
				db.OnAlloc = append(db.OnAlloc, &OnAlloc{Type: fs[1], Ghost: fs[2], Val: db.mustExpr(strings.Join(fs[3:], " "), where), Pkg: pkg})
			} else {
				db.errf("%s: bad onalloc", where)
			}
		case "global":
			for _, n := range strings.Split(rest, ",") {
				if n = strings.TrimSpace(n); n != "" {
					db.GlobalDecls = append(db.GlobalDecls, &ConstDef{Name: n, Pkg: pkg})
				}
			}
		case "evalconst":
			if i := strings.Index(rest, "="); i > 0 {
				db.EvalConsts = append(db.EvalConsts, &ConstDef{Name: strings.TrimSpace(rest[:i]), Val: strings.TrimSpace(rest[i+1:]), Pkg: pkg})
			} else {
				db.errf("%s: bad evalconst", where)
			}
		case "const":
			// const NAME = <decimal>
			if len(fs) >= 4 && fs[2] == "=" {
				db.Consts[fs[1]] = &ConstDef{Name: fs[1], Val: fs[3], Pkg: pkg}
			} else {
				db.errf("%s: bad const", where)
			}
		default:
			if cur == nil {
				db.errf("%s: clause outside func", where)
				continue
			}
			switch kw {
			case "let":
				if i := strings.Index(rest, "="); i > 0 {
					cur.Lets = append(cur.Lets, &Clause{Label: strings.TrimSpace(rest[:i]), E: db.mustExpr(rest[i+1:], where)})
				} else {
					db.errf("%s: bad let", where)
				}
			case "arith":
				cur.Mode = rest
			case "allocates":
				// objects created by the function (evaluated in the post-state, results bound): at a call
				// site their components get fresh contents, then the ensures describe them
				for _, a := range splitTop(rest, ',') {
					cur.Allocates = append(cur.Allocates, db.mustExpr(a, where))
				}
			case "assumes":
				// like requires for the function's own proof, but NOT checked at call sites: an
				// unchecked assumption about callers, listed in the evidence
				lb, ex := splitLabel(rest)
				cur.Assumes = append(cur.Assumes, &Clause{Label: lb, E: db.mustExpr(ex, where)})
			case "requires":
				lb, ex := splitLabel(rest)
				cur.Requires = append(cur.Requires, &Clause{Label: lb, E: db.mustExpr(ex, where)})
			case "absolute":
				if strings.TrimSpace(rest) != "positions" {
					db.errf("%s: expected `absolute positions`", where)
				}
				cur.AbsIdx = true
			case "sliced":
				if strings.TrimSpace(rest) != "context" {
					db.errf("%s: expected `sliced context`", where)
				}
				cur.Sliced = true
			case "structural":
				cur.StructuralOnly = true
			case "no":
				if strings.TrimSpace(rest) != "map iteration" {
					db.errf("%s: expected `no map iteration`", where)
				}
				cur.NoMapIter = true
			case "deterministic":
				cur.Deterministic = true
				cur.DetReason = strings.Trim(strings.TrimSpace(rest), "\"")
			case "every":
				if strings.TrimSpace(rest) == "loop iterates" {
					cur.EveryLoopIterates = true
				} else {
					db.errf("%s: expected `every loop iterates`", where)
				}
			case "ignores":
				for _, it := range splitTop(rest, ',') {
					if cur.Ignores == nil {
						cur.Ignores = map[string]bool{}
					}
					cur.Ignores[strings.TrimSpace(it)] = true
				}
			case "trusts":
				// like ensures for callers, but not an obligation of the function itself: an explicitly
				// unchecked part of an otherwise verified contract
				lb, ex := splitLabel(rest)
				cur.Trusts = append(cur.Trusts, &Clause{Label: lb, E: db.mustExpr(ex, where)})
			case "ensures":
				lb, op, ex := splitLabelOpaque(rest)
				cur.Ensures = append(cur.Ensures, &Clause{lb, db.mustExpr(ex, where), op})
			case "assigns":
				if rest == "*" {
					cur.AssignsAll = true
				} else {
					for _, a := range splitTop(rest, ',') {
						cur.Assigns = append(cur.Assigns, db.mustExpr(a, where))
					}
				}
			case "pure":
				cur.Pure = true
			case "inline":
				cur.Inline = true
			case "trusted":
				cur.Trusted = strings.Trim(rest, "\"")
				if cur.Trusted == "" {
					cur.Trusted = "trusted"
				}
			case "opaque":
				for _, o := range strings.Split(rest, ",") {
					cur.Opaque = append(cur.Opaque, strings.TrimSpace(o))
				}
			case "nosafety":
				cur.NoSafety = true
			case "abstract":
				cur.Abstract = true
				cur.NoSafety = true
			case "decreases":
				if curLoop != nil {
					curLoop.Decreases = db.mustExpr(rest, where)
				} else {
					cur.Decreases = db.mustExpr(rest, where)
				}
			case "loop":
				n, err := strconv.Atoi(strings.TrimSuffix(fs[1], ":"))
				if err != nil {
					db.errf("%s: bad loop ordinal", where)
					continue
				}
				curLoop = &LoopC{}
				if p := strings.Index(rest, "("); p >= 0 {
					if q := matchParen(rest, p); q > p {
						for _, v := range strings.Split(rest[p+1:q], ",") {
							if v = strings.TrimSpace(v); v != "" {
								curLoop.Vars = append(curLoop.Vars, v)
							}
						}
					}
				}
				cur.Loops[n] = curLoop
			case "forgets":
				if curLoop == nil || strings.TrimSpace(rest) != "earlier invariants" {
					db.errf("%s: expected `forgets earlier invariants` inside a loop block", where)
					continue
				}
				curLoop.Forgets = true
			case "invariant":
				if curLoop == nil {
					db.errf("%s: invariant outside loop", where)
					continue
				}
				lb, ex := splitLabel(rest)
				curLoop.Inv = append(curLoop.Inv, &Clause{Label: lb, E: db.mustExpr(ex, where)})
			case "dead":
				// dead <cover label> "<why>": that point (e.g. return5) is unreachable by the code's own logic; its
				// reachability cover is then expected to be unsat and is not reported as vacuity
				fs2 := strings.Fields(rest)
				if len(fs2) >= 1 {
					if cur.Dead == nil {
						cur.Dead = map[string]bool{}
					}
					cur.Dead[fs2[0]] = true
				}
			case "keeps":
				if curLoop != nil && strings.TrimSpace(rest) == "old objects" {
					curLoop.KeepsOld = true
				} else {
					db.errf("%s: expected `keeps old objects` inside a loop block", where)
				}
			case "unroll":
				if curLoop != nil {
					curLoop.Unroll, _ = strconv.Atoi(rest)
				}
			case "assume":
				// assume at <anchor>: expr -- an UNCHECKED fact about state the function did not build itself
				// (e.g. an invariant of stored data it has just read); listed as an assumption in the evidence
				r := strings.TrimPrefix(rest, "at ")
				i := strings.Index(r, ":")
				if i < 0 {
					db.errf("%s: bad assume", where)
					continue
				}
				lb, ex := splitLabel(r[i+1:])
				cur.Asserts = append(cur.Asserts, &AtClause{Anchor: strings.TrimSpace(r[:i]), Label: lb, E: db.mustExpr(ex, where), Assume: true})
			case "apply":
				// apply at <anchor>: lemma(args) -- use a proved lemma at specific terms (evaluated BEFORE the
				// ghost updates of the same anchor, so a lemma about `store(G, k, v)` can name the old G)
				r := strings.TrimPrefix(rest, "at ")
				i := strings.Index(r, ":")
				if i < 0 {
					db.errf("%s: bad apply", where)
					continue
				}
				cur.Asserts = append(cur.Asserts, &AtClause{Anchor: strings.TrimSpace(r[:i]), E: db.mustExpr(r[i+1:], where), Apply: true})
			case "assert", "check", "derive", "cut":
				// assert at <anchor>: expr   -- proved there, then assumed for what follows (a proof step)
				// check at <anchor>: expr    -- proved there, NOT assumed afterwards (a goal; keeps quantified
				//                               statements of the property out of later queries)
				r := strings.TrimPrefix(rest, "at ")
				i := strings.Index(r, ":")
				if i < 0 {
					db.errf("%s: bad assert", where)
					continue
				}
				lb, ex := splitLabel(r[i+1:])
				cur.Asserts = append(cur.Asserts, &AtClause{Anchor: strings.TrimSpace(r[:i]), Label: lb, E: db.mustExpr(ex, where), GoalOnly: kw == "check", Local: kw == "derive", Cut: kw == "cut"})
			case "replay":
				cur.Replay = append(cur.Replay, rest)
			}
		}
	}
}

func matchParen(s string, i int) int {
	if i < 0 {
		return -1
	}
	d := 0
	for j := i; j < len(s); j++ {
		switch s[j] {
		case '(':
			d++
		case ')':
			d--
			if d == 0 {
				return j
			}
		}
	}
	return -1
}

func splitTop(s string, sep byte) []string {
	var out []string
	d := 0
	last := 0
	for i := 0; i < len(s); i++ {
		switch s[i] {
		case '(', '[':
			d++
		case ')', ']':
			d--
		default:
			if s[i] == sep && d == 0 {
				out = append(out, strings.TrimSpace(s[last:i]))
				last = i + 1
			}
		}
	}
	out = append(out, strings.TrimSpace(s[last:]))
	return out
}

func mentionsCall(e *Expr, name string) bool {
	if e == nil {
		return false
	}
	if e.Op == "call" && e.Args[0].Op == "id" && e.Args[0].Val == name {
		return true
	}
	for _, a := range e.Args {
		if mentionsCall(a, name) {
			return true
		}
	}
	return false
}

func loadContracts(pkgs []*packages.Package) *ContractDB {
	db := newDB()
	seen := map[string]bool{}
	packages.Visit(pkgs, nil, func(p *packages.Package) {
		for i, f := range p.Syntax {
			name := ""
			if i < len(p.CompiledGoFiles) {
				name = p.CompiledGoFiles[i]
			}
			if !strings.Contains(name, "zz_verif") || seen[name] {
				continue
			}
			seen[name] = true
			db.loadFile(p, f, name)
		}
	})
	return db
}
