// Discharging obligations: one SMT-LIB file per obligation, three solvers raced.
package main

import (
	"bytes"
	"context"
	"fmt"
	"os"
	"os/exec"
	"path/filepath"
	"strings"
	"sync"
	"time"
)

func (g *Gen) prelude() string { return g.preludeOpaque(nil) }

// opaque: spec functions whose definition is hidden (declared uninterpreted) in this query
func (g *Gen) preludeOpaque(opaque []string) string {
	idx := g.idxSort()
	var sb strings.Builder
	sb.WriteString("(set-logic ALL)\n")
	fmt.Fprintf(&sb, "(declare-datatypes ((Slice 0)) (((mk-slice (base Int) (off %s) (len %s) (cap %s)))))\n", idx, idx, idx)
	if !g.bv {
		sb.WriteString("(define-fun tdiv ((a Int) (b Int)) Int (ite (>= a 0) (ite (> b 0) (div a b) (- (div a (- b)))) (ite (> b 0) (- (div (- a) b)) (div (- a) (- b)))))\n")
		sb.WriteString("(define-fun trem ((a Int) (b Int)) Int (- a (* b (tdiv a b))))\n")
	}
	for _, d := range g.dts {
		sb.WriteString(d + "\n")
	}
	// declarations that spec functions may need come first (components), then spec functions
	for _, d := range g.decls {
		sb.WriteString(d + "\n")
	}
	for _, p := range g.prel {
		sb.WriteString(hideDef(p, opaque) + "\n")
	}
	for _, a := range g.globalAx {
		sb.WriteString(a + "\n")
	}
	return sb.String()
}

func (g *Gen) query(o *Oblig, extra string) string {
	var sb strings.Builder
	sb.WriteString(g.preludeOpaque(o.Opaque))
	n := o.Ctx
	if n > len(g.defs) {
		n = len(g.defs)
	}
	skip := map[int]bool{}
	if o.NoAssumed {
		for _, i := range g.assumedIdx {
			skip[i] = true
		}
	}
	// what was asserted (and then assumed) at ANOTHER return statement is of no use here: that path
	// has ended. Leaving those lines out changes nothing logically (they are guarded by that path's
	// reach and were proved) and removes quantified facts that only feed the instantiation engine.
	for _, r := range g.retLocal {
		if r[2] != o.RetID {
			for i := r[0]; i < r[1]; i++ {
				skip[i] = true
			}
		}
	}
	for _, i := range o.Hide {
		skip[i] = true
	}
	if g.topC != nil && g.topC.Sliced {
		// cone of influence: keep only the context lines that share a (non-logical) symbol, directly or through
		// other kept lines, with the goal. Dropping hypotheses is always sound; what is dropped here cannot
		// take part in a refutation of the goal unless it is inconsistent on its own.
		keep := sliceContext(g.defs[:n], skip, o.Guard+" "+o.Prop+" "+extra)
		for i := range g.defs[:n] {
			if !keep[i] {
				skip[i] = true
			}
		}
	}
	for i, d := range g.defs[:n] {
		if skip[i] {
			continue
		}
		sb.WriteString(d + "\n")
	}
	fmt.Fprintf(&sb, "; obligation %s : %s\n", o.Name, strings.ReplaceAll(o.Desc, "\n", " "))
	fmt.Fprintf(&sb, "(assert %s)\n(assert (not %s))\n", o.Guard, o.Prop)
	sb.WriteString(extra)
	sb.WriteString("(check-sat)\n")
	for _, op := range o.Opaque {
		if op == "*" && !g.bv {
			return abstractMul(sb.String())
		}
	}
	return sb.String()
}

// turn "(define-fun f ((x S)...) R body)" into "(declare-fun f (S...) R)" when f is opaque
func hideDef(def string, opaque []string) string {
	for _, name := range opaque {
		for _, kw := range []string{"(define-fun ", "(define-fun-rec "} {
			if strings.HasPrefix(def, kw+name+" ") {
				rest := def[len(kw)+len(name)+1:]
				// rest = "((x S) (y T)) R body)"
				end := sexpEnd(rest, 0)
				params := rest[1:end]
				var sorts []string
				i := 0
				for i < len(params) {
					if params[i] == '(' {
						j := sexpEnd(params, i)
						inner := params[i+1 : j]
						k := strings.Index(inner, " ")
						sorts = append(sorts, strings.TrimSpace(inner[k+1:]))
						i = j + 1
					} else {
						i++
					}
				}
				after := strings.TrimSpace(rest[end+1:])
				re := sexpEnd(after, 0)
				ret := after[:re+1]
				return fmt.Sprintf("(declare-fun %s (%s) %s)", name, strings.Join(sorts, " "), ret)
			}
		}
	}
	return def
}

type solverSpec struct {
	name string // label in the evidence
	bin  string
	args func(timeoutS int, file string) []string
	late bool // third stage: joins only after 4 s (diversification against E-matching instability)
}

// z3-new/noflat: same solver with n-ary flattening of + / bvadd switched off, which keeps index
// terms in the shape the quantifier patterns expect (decides in 0.5 s what the default times out on).
var solvers = []solverSpec{
	{"z3-new", "z3-new", func(t int, f string) []string {
		return []string{fmt.Sprintf("-T:%d", t), "smt.random_seed=" + seedStr(), f}
	}, false},
	{"z3-new/noflat", "z3-new", func(t int, f string) []string {
		return []string{fmt.Sprintf("-T:%d", t), "rewriter.flat=false", "smt.random_seed=" + seedStr(), f}
	}, false},
	{"z3", "z3", func(t int, f string) []string {
		return []string{fmt.Sprintf("-T:%d", t), "smt.random_seed=" + seedStr(), f}
	}, false},
	{"cvc5", "cvc5", func(t int, f string) []string {
		return []string{fmt.Sprintf("--tlimit=%d", t*1000), "--seed=" + seedStr(), f}
	}, false},
	// the same solver with the quantifier engine restricted to E-matching and the other arithmetic
	// core / another seed: goals with several quantified hypotheses are decided in < 1 s by one of
	// these when the default configuration wanders. An answer from any configuration is an answer.
	{"z3-new/as2", "z3-new", func(t int, f string) []string {
		return []string{fmt.Sprintf("-T:%d", t), "smt.mbqi=false", "smt.arith.solver=2", "smt.random_seed=" + seedStr(), f}
	}, true},
	{"z3-new/ematch", "z3-new", func(t int, f string) []string {
		return []string{fmt.Sprintf("-T:%d", t), "smt.mbqi=false", "smt.random_seed=3", f}
	}, true},
}

func seedStr() string {
	if s := os.Getenv("VERIF_SEED"); s != "" {
		var v int
		if _, err := fmt.Sscanf(s, "%d", &v); err == nil {
			return fmt.Sprintf("%d", v%1000000)
		}
	}
	return "0"
}

// race the solvers on one file; first definite answer wins
func raceSolvers(file string, timeoutS int) (status, solver, output string, dur time.Duration) {
	t0 := time.Now()
	ctx, cancel := context.WithCancel(context.Background())
	defer cancel()
	type ans struct{ s, who, out string }
	ch := make(chan ans, len(solvers))
	for si, sp := range solvers {
		go func(si int, sp solverSpec) {
			if si > 0 {
				// staged race: the first solver decides most obligations within a fraction of a
				// second; the others join only if it has not answered yet
				select {
				case <-ctx.Done():
					ch <- ans{"cancelled", sp.name, ""}
					return
				case <-time.After(map[bool]time.Duration{false: 1200 * time.Millisecond, true: 4 * time.Second}[sp.late]):
				}
			}
			// at most procSlots solver processes run at once (across all obligations of this run): a
			// solver's time limit counts from the moment it gets a slot, so an overloaded machine makes
			// a check slower, not flaky
			release, ok := acquireSlot(ctx)
			if !ok {
				ch <- ans{"cancelled", sp.name, ""}
				return
			}
			defer release()
			pctx, pcancel := context.WithTimeout(ctx, time.Duration(timeoutS+5)*time.Second)
			defer pcancel()
			cmd := exec.CommandContext(pctx, sp.bin, sp.args(timeoutS, file)...)
			var buf bytes.Buffer
			cmd.Stdout = &buf
			cmd.Stderr = &buf
			cmd.Run()
			out := buf.String()
			first := strings.TrimSpace(strings.SplitN(out, "\n", 2)[0])
			if first == "" && pctx.Err() != nil && ctx.Err() == nil {
				first = "timeout"
			}
			ch <- ans{first, sp.name, out}
		}(si, sp)
	}
	var last ans
	var outs []string
	for i := 0; i < len(solvers); i++ {
		a := <-ch
		outs = append(outs, a.who+": "+firstLines(a.out, 3))
		if a.s == "unsat" || a.s == "sat" {
			cancel()
			return a.s, a.who, a.out, time.Since(t0)
		}
		last = a
	}
	st := last.s
	if st != "unknown" && st != "timeout" {
		if strings.Contains(strings.Join(outs, " "), "timeout") {
			st = "timeout"
		} else if strings.Contains(st, "error") || strings.HasPrefix(st, "(error") {
			st = "error"
		} else {
			st = "unknown"
		}
	}
	return st, "", strings.Join(outs, "\n"), time.Since(t0)
}

func firstLines(s string, n int) string {
	ls := strings.Split(strings.TrimSpace(s), "\n")
	if len(ls) > n {
		ls = ls[:n]
	}
	return strings.Join(ls, " | ")
}

func fileSafe(s string) string {
	return strings.NewReplacer("/", "_", "*", "P", "(", "", ")", "", " ", "_", "#", "-", ":", "_", "$", "_", "<", "", ">", "").Replace(s)
}

func solveAll(obs []*Oblig, outDir string, timeoutS int, workers int) {
	os.MkdirAll(outDir, 0755)
	var wg sync.WaitGroup
	sem := make(chan struct{}, workers)
	for _, o := range obs {
		if o.Status != "" {
			continue
		}
		wg.Add(1)
		sem <- struct{}{}
		go func(o *Oblig) {
			defer wg.Done()
			defer func() { <-sem }()
			file := filepath.Join(outDir, fileSafe(o.Name)+".smt2")
			os.WriteFile(file, []byte(o.gen.query(o, "")), 0644)
			o.File = file
			if o.Prop == "true" {
				o.Status, o.Solver = "unsat", "trivial"
				return
			}
			if o.Kind == "vacuity" {
				// reachability cover (a satisfiability question). Quantified context facts make solvers answer
				// `unknown` or spend the whole timeout, so the query WITHOUT its quantified assertions goes
				// first: dropping assertions only weakens the context, so `unsat` there is a genuine vacuity
				// verdict, and `sat` is a smoke test labelled /noquant. Only an inconclusive answer is
				// followed by the full query.
				tc := timeoutS
				if tc > 5 {
					tc = 5
				}
				q := o.gen.query(o, "")
				var keep []string
				dropped := 0
				for _, ln := range strings.Split(q, "\n") {
					if strings.HasPrefix(ln, "(assert") && strings.Contains(ln, "(forall ") {
						dropped++
						continue
					}
					keep = append(keep, ln)
				}
				if dropped == 0 {
					st, who, out, d := raceSolvers(file, tc)
					o.Status, o.Solver, o.Output, o.Ms = st, who, out, d.Milliseconds()
					return
				}
				f2 := filepath.Join(outDir, fileSafe(o.Name)+".noquant.smt2")
				os.WriteFile(f2, []byte(strings.Join(keep, "\n")), 0644)
				st, who, out, d := raceSolvers(f2, tc)
				if st == "sat" || st == "unsat" {
					o.Status, o.Solver, o.Output, o.Ms = st, who+"/noquant", out, d.Milliseconds()
					return
				}
				st2, who2, out2, d2 := raceSolvers(file, tc)
				o.Status, o.Solver, o.Output, o.Ms = st2, who2, out2, (d + d2).Milliseconds()
				return
			}
			if len(o.Opaque) == 0 {
				st, who, out, d := raceSolvers(file, timeoutS)
				o.Status, o.Solver, o.Output, o.Ms = st, who, out, d.Milliseconds()
				return
			}
			// two variants raced: full definitions, and with the listed spec functions hidden.
			// unsat from either is a proof (hiding a definition only weakens the context);
			// sat counts only from the full variant.
			full := *o
			full.Opaque = nil
			fileFull := filepath.Join(outDir, fileSafe(o.Name)+".full.smt2")
			os.WriteFile(fileFull, []byte(o.gen.query(&full, "")), 0644)
			type res struct {
				st, who, out string
				ms           int64
				opaque       bool
			}
			ch := make(chan res, 2)
			go func() {
				st, who, out, d := raceSolvers(file, timeoutS)
				ch <- res{st, who, out, d.Milliseconds(), true}
			}()
			go func() {
				st, who, out, d := raceSolvers(fileFull, timeoutS)
				ch <- res{st, who, out, d.Milliseconds(), false}
			}()
			var fullRes, opRes res
			for i := 0; i < 2; i++ {
				r := <-ch
				if r.opaque {
					opRes = r
				} else {
					fullRes = r
				}
				if r.st == "unsat" {
					o.Status, o.Solver, o.Output, o.Ms = r.st, r.who, r.out, r.ms
					if r.opaque {
						o.Solver += "(opaque)"
					}
					return
				}
				if r.st == "sat" && !r.opaque {
					o.Status, o.Solver, o.Output, o.Ms = r.st, r.who, r.out, r.ms
					o.File = fileFull
					o.Opaque = nil
					return
				}
			}
			o.Status, o.Solver, o.Output, o.Ms = fullRes.st, fullRes.who, fullRes.out+"\n[opaque variant] "+opRes.st, fullRes.ms
		}(o)
	}
	wg.Wait()
}

// get-value query against the solver that answered sat
func modelValues(o *Oblig, solver string, terms []string, timeoutS int) map[string]string {
	return modelValuesExtra(o, solver, terms, timeoutS, "")
}

// extra: additional assertions (e.g. "prefer small inputs") placed before check-sat
func modelValuesExtra(o *Oblig, solver string, terms []string, timeoutS int, extra string) map[string]string {
	if len(terms) == 0 {
		return nil
	}
	q := o.gen.query(o, extra)
	q = strings.Replace(q, "(set-logic ALL)\n", "(set-option :produce-models true)\n(set-logic ALL)\n", 1)
	q += fmt.Sprintf("(get-value (%s))\n", strings.Join(terms, " "))
	file := strings.TrimSuffix(o.File, ".smt2") + ".model.smt2"
	os.WriteFile(file, []byte(q), 0644)
	var sp *solverSpec
	for i := range solvers {
		if solvers[i].name == solver {
			sp = &solvers[i]
		}
	}
	if sp == nil {
		sp = &solvers[0]
	}
	ctx, cancel := context.WithTimeout(context.Background(), time.Duration(timeoutS+5)*time.Second)
	defer cancel()
	out, _ := exec.CommandContext(ctx, sp.bin, sp.args(timeoutS, file)...).CombinedOutput()
	s := string(out)
	if !strings.HasPrefix(strings.TrimSpace(s), "sat") {
		return nil
	}
	res := map[string]string{}
	// parse ((term value) (term value) ...)
	body := s[strings.Index(s, "\n")+1:]
	vals := parseGetValue(body)
	for i, t := range terms {
		if i < len(vals) {
			res[t] = vals[i]
		}
	}
	return res
}

// parse "((t1 v1)\n (t2 v2))" into [v1, v2] (values as s-expression strings)
func parseGetValue(s string) []string {
	s = strings.TrimSpace(s)
	if !strings.HasPrefix(s, "(") {
		return nil
	}
	var out []string
	i := 1
	for i < len(s) {
		for i < len(s) && (s[i] == ' ' || s[i] == '\n' || s[i] == '\t') {
			i++
		}
		if i >= len(s) || s[i] != '(' {
			break
		}
		// pair
		j := sexpEnd(s, i)
		pair := s[i+1 : j]
		// first element = term, second = value
		k := sexpEnd(pair, 0)
		val := strings.TrimSpace(pair[k+1:])
		out = append(out, val)
		i = j + 1
	}
	return out
}

// index of the last char of the s-expression starting at i
func sexpEnd(s string, i int) int {
	if i >= len(s) {
		return i
	}
	if s[i] == '(' {
		d := 0
		for j := i; j < len(s); j++ {
			switch s[j] {
			case '(':
				d++
			case ')':
				d--
				if d == 0 {
					return j
				}
			case '|':
				k := strings.IndexByte(s[j+1:], '|')
				if k >= 0 {
					j += k + 1
				}
			}
		}
		return len(s) - 1
	}
	if s[i] == '|' {
		k := strings.IndexByte(s[i+1:], '|')
		return i + 1 + k
	}
	j := i
	for j < len(s) && s[j] != ' ' && s[j] != '\n' && s[j] != ')' && s[j] != '(' {
		j++
	}
	return j - 1
}

// ---- abstraction of nonlinear multiplication ----
// In the "*"-opaque variant every product of two non-literal terms becomes an application of an
// uninterpreted function (operands sorted, so commutativity is kept syntactically). Dropping the
// meaning of `*` only weakens the context, so `unsat` is still a proof.

func abstractMul(q string) string {
	var sb strings.Builder
	i := 0
	for i < len(q) {
		if q[i] == '(' {
			j := sexpEnd(q, i)
			sb.WriteString(rewriteMul(q[i : j+1]))
			i = j + 1
			continue
		}
		if q[i] == ';' { // comment line
			k := strings.IndexByte(q[i:], '\n')
			if k < 0 {
				k = len(q) - i
			}
			sb.WriteString(q[i : i+k])
			i += k
			continue
		}
		sb.WriteByte(q[i])
		i++
	}
	out := sb.String()
	return strings.Replace(out, "(set-logic ALL)\n", "(set-logic ALL)\n(declare-fun nlm (Int Int) Int)\n(define-fun nlmul ((a Int) (b Int)) Int (ite (<= a b) (nlm a b) (nlm b a)))\n", 1)
}

func splitSexp(s string) []string { // s = "(a b (c d))" -> ["a","b","(c d)"]
	var out []string
	i := 1
	for i < len(s)-1 {
		if s[i] == ' ' || s[i] == '\n' || s[i] == '\t' {
			i++
			continue
		}
		j := sexpEnd(s, i)
		out = append(out, s[i:j+1])
		i = j + 1
	}
	return out
}

func isNumeral(s string) bool {
	if s == "" {
		return false
	}
	if strings.HasPrefix(s, "(- ") && strings.HasSuffix(s, ")") {
		return isNumeral(strings.TrimSpace(s[3 : len(s)-1]))
	}
	for _, c := range s {
		if c < '0' || c > '9' {
			return false
		}
	}
	return true
}

func rewriteMul(s string) string {
	if len(s) == 0 || s[0] != '(' {
		return s
	}
	parts := splitSexp(s)
	if len(parts) == 0 {
		return s
	}
	for k := 1; k < len(parts); k++ {
		parts[k] = rewriteMul(parts[k])
	}
	if parts[0] == "*" && len(parts) == 3 && !isNumeral(parts[1]) && !isNumeral(parts[2]) {
		a, b := parts[1], parts[2]
		if b < a {
			a, b = b, a
		}
		return "(nlmul " + a + " " + b + ")"
	}
	if parts[0][0] == '(' {
		parts[0] = rewriteMul(parts[0])
	}
	return "(" + strings.Join(parts, " ") + ")"
}


// symbols of an SMT-LIB line that were introduced by the generator: |quoted| names and q_/lq_ bound names are
// enough (every generated constant is quoted)
func quotedSymbols(s string) []string {
	var out []string
	for i := 0; i < len(s); i++ {
		if s[i] == '|' {
			j := strings.IndexByte(s[i+1:], '|')
			if j < 0 {
				break
			}
			out = append(out, s[i:i+j+2])
			i += j + 1
		}
	}
	return out
}

func sliceContext(defs []string, skip map[int]bool, goal string) map[int]bool {
	keep := map[int]bool{}
	syms := map[string]bool{}
	for _, x := range quotedSymbols(goal) {
		syms[x] = true
	}
	lineSyms := make([][]string, len(defs))
	for i, d := range defs {
		if skip[i] {
			continue
		}
		lineSyms[i] = quotedSymbols(d)
		if len(lineSyms[i]) == 0 {
			keep[i] = true // ground axioms, declarations without generated symbols
		}
	}
	// heap component versions connect everything with everything: they do not propagate relevance on
	// their own (a line is pulled in by a value symbol it shares, and then brings its heap versions along)
	isHeap := func(x string) bool { return strings.HasPrefix(x, "|H_") || strings.HasPrefix(x, "|hv_") }
	for changed := true; changed; {
		changed = false
		for i := range defs {
			if skip[i] || keep[i] {
				continue
			}
			hit := false
			for _, x := range lineSyms[i] {
				if syms[x] && !isHeap(x) {
					hit = true
					break
				}
			}
			if !hit {
				// a definition of a heap version that is already needed
				if strings.HasPrefix(defs[i], "(assert (= |H_") {
					if name := quotedSymbols(defs[i]); len(name) > 0 && syms[name[0]] {
						hit = true
					}
				}
			}
			if hit {
				keep[i] = true
				changed = true
				for _, x := range lineSyms[i] {
					syms[x] = true
				}
			}
		}
	}
	return keep
}
