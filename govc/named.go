// Source variable names in contract clauses: resolved to the latest SSA definition that dominates
// the current program point.
package main

import (
	"go/types"

	"golang.org/x/tools/go/ssa"
)

type namedDef struct {
	v ssa.Value
	b *ssa.BasicBlock
}

func (fr *frame) setNamed(name string, v ssa.Value, b *ssa.BasicBlock) {
	fr.named[name] = v
	if fr.namedAll == nil {
		fr.namedAll = map[string][]namedDef{}
	}
	fr.namedAll[name] = append(fr.namedAll[name], namedDef{v, b})
}

func (fr *frame) lookupNamed(name string) ssa.Value {
	ds := fr.namedAll[name]
	cur := fr.curBlock
	for i := len(ds) - 1; i >= 0; i-- {
		if cur == nil || ds[i].b == nil || ds[i].b == cur || ds[i].b.Dominates(cur) {
			return ds[i].v
		}
	}
	return nil
}

// Addressable source variables (`hash := h.Hash()` whose address is taken later): the DebugRef
// carries the variable's ADDRESS. In clauses the name denotes the value stored there now; for arrays
// the address is kept too, so that `hash[:]` denotes the same slice the code builds.
func (fr *frame) setNamedAddr(name string, v ssa.Value, b *ssa.BasicBlock) {
	if fr.namedAddr == nil {
		fr.namedAddr = map[string][]namedDef{}
	}
	fr.namedAddr[name] = append(fr.namedAddr[name], namedDef{v, b})
}

func (g *Gen) bindNamedAddrs(env *TEnv) {
	fr := g.fr
	for name, ds := range fr.namedAddr {
		if prev, done := env.vars[name]; done {
			// a value binding (from the defining assignment) wins, except for arrays, where the
			// stored value and its address are needed
			if prev.gt == nil {
				continue
			}
			if _, isArr := prev.gt.Underlying().(*types.Array); !isArr {
				continue
			}
		}
		cur := fr.curBlock
		for i := len(ds) - 1; i >= 0; i-- {
			if !(cur == nil || ds[i].b == nil || ds[i].b == cur || ds[i].b.Dominates(cur)) {
				continue
			}
			if _, ok := fr.val[ds[i].v]; !ok {
				if _, ok := fr.lv[ds[i].v]; !ok {
					break
				}
			}
			l := g.lvalOf(ds[i].v)
			if l == nil {
				break
			}
			tv := tvT{t: g.load(l), gt: l.typ}
			if l.kind != "local" && len(l.path) == 0 {
				tv.addr = l.ref
			}
			env.vars[name] = tv
			break
		}
	}
}

// `rangeindex` (the hidden counter of a range-over-slice loop) inside the loop body: the counter of
// the innermost enclosing range loop, i.e. of the deepest dominating block that carries one.
func (g *Gen) bindRangeIndex(env *TEnv) {
	fr := g.fr
	if fr.curBlock == nil || fr.fn == nil {
		return
	}
	if _, ok := env.vars["rangeindex"]; ok {
		return
	}
	var best *ssa.Phi
	for _, b := range fr.fn.Blocks {
		if !(b == fr.curBlock || b.Dominates(fr.curBlock)) {
			continue
		}
		for _, in := range b.Instrs {
			phi, ok := in.(*ssa.Phi)
			if !ok {
				break
			}
			if phi.Comment == "rangeindex" {
				if _, have := fr.val[phi]; have && (best == nil || best.Block().Dominates(b)) {
					best = phi
				}
			}
		}
	}
	if best != nil {
		env.vars["rangeindex"] = tvT{t: fr.val[best], gt: best.Type()}
	}
}
